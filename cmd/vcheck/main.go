// vcheck is the driver behind /verif/check: instrument the current tree,
// build the engine(s) for a property, fan the seeded search out over worker
// processes, shrink and replay a violation, write the evidence file.
//
// Exit status: 0 property held on everything explored, 1 violation (with a
// VIOLATION line), 2 infrastructure trouble (never a verdict).
package main

import (
	"bufio"
	"bytes"
	"encoding/binary"
	"encoding/json"
	"fmt"
	"io"
	"os"
	"os/exec"
	"path/filepath"
	"runtime"
	"sort"
	"strconv"
	"strings"
	"sync"
	"time"
)

// verifDir: where this copy of the machinery lives (the directory above bin/),
// so that a snapshot of /verif works on its own files.
var verifDir = func() string {
	if v := os.Getenv("VERIF_DIR"); v != "" {
		return v
	}
	if exe, err := os.Executable(); err == nil {
		if d := filepath.Dir(filepath.Dir(exe)); filepath.Base(filepath.Dir(exe)) == "bin" {
			return d
		}
	}
	return "/verif"
}()

type part struct {
	Engine   string
	Quick    int // total runs
	Thorough int
	Race     bool // auxiliary race-detector pass on the uninstrumented tree (monitoring, not simulation)
}

type propCfg struct {
	Parts       []part
	Rule        string
	Assumptions []string
	Must        []string // probes that must be reached by a thorough run
}

var goEnv = []string{"GOFLAGS=-mod=mod", "GOPROXY=off", "GOSUMDB=off", "GOTOOLCHAIN=local", "CGO_ENABLED=1"}

func die(code int, format string, a ...any) {
	fmt.Fprintf(os.Stderr, "vcheck: "+format+"\n", a...)
	cleanup()
	os.Exit(code)
}

var scratch string

func cleanup() {
	if scratch != "" && os.Getenv("VERIF_KEEP") == "" {
		os.RemoveAll(scratch)
	}
}

func envOr(k, d string) string {
	if v := os.Getenv(k); v != "" {
		return v
	}
	return d
}

func repoDir() string { return envOr("VERIF_REPO", "/repo") }

func runCmd(dir string, env []string, name string, args ...string) (string, error) {
	cmd := exec.Command(name, args...)
	cmd.Dir = dir
	cmd.Env = append(os.Environ(), env...)
	var buf bytes.Buffer
	cmd.Stdout = &buf
	cmd.Stderr = &buf
	err := cmd.Run()
	return buf.String(), err
}

type instrStats struct {
	Files     int            `json:"files"`
	Sites     map[string]int `json:"sites"`
	Uninstr   []string       `json:"uninstrumented_sites"`
	SourceSHA string         `json:"source_sha"`
}

var istats instrStats

// prepare instruments the tree and writes the scratch go.mod.
// r9Off: the instrumented copy did not compile with the access notes of rule
// R9 and was instrumented again without them (the lockset checker then sees
// nothing; everything else is unaffected). Recorded in the evidence.
var r9Off bool

func instrumentRepo(noAccess bool) {
	os.RemoveAll(filepath.Join(scratch, "flyt"))
	args := []string{"-src", repoDir(), "-dst", filepath.Join(scratch, "flyt"), "-stats", filepath.Join(scratch, "instr.json")}
	if noAccess {
		args = append(args, "-noaccess")
	}
	out, err := runCmd(verifDir, goEnv, filepath.Join(verifDir, "bin", "instrument"), args...)
	if err != nil {
		die(2, "instrumentation of %s failed (build trouble, not a verdict):\n%s", repoDir(), out)
	}
}

func prepare() {
	var err error
	scratch, err = os.MkdirTemp("", "vcheck-")
	if err != nil {
		die(2, "%v", err)
	}
	instrumentRepo(false)
	defer func() {
		// the instrumented package must compile on its own; if it does not with
		// R9's notes, fall back to the copy without them rather than fail
		if out, err := runCmd(filepath.Join(verifDir, "engines"), goEnv, "go1.26.8", "build", "-modfile="+filepath.Join(scratch, "go.mod"), "github.com/mark3labs/flyt"); err != nil {
			fmt.Fprintf(os.Stderr, "vcheck: instrumented copy does not compile with rule R9, instrumenting again without it:\n%s\n", out)
			r9Off = true
			instrumentRepo(true)
			b, _ := os.ReadFile(filepath.Join(scratch, "instr.json"))
			json.Unmarshal(b, &istats)
		}
	}()
	b, _ := os.ReadFile(filepath.Join(scratch, "instr.json"))
	json.Unmarshal(b, &istats)
	gomod := fmt.Sprintf(`module verif.local/engines

go 1.23

require (
	github.com/anishathalye/porcupine v1.3.0
	github.com/mark3labs/flyt v0.0.0
	verif.local/simrt v0.0.0
)

replace github.com/mark3labs/flyt => %s
replace verif.local/simrt => %s
`, filepath.Join(scratch, "flyt"), filepath.Join(verifDir, "simrt"))
	os.WriteFile(filepath.Join(scratch, "go.mod"), []byte(gomod), 0o644)
	// race pass: the uninstrumented tree itself
	gomodRace := fmt.Sprintf(`module verif.local/engines

go 1.23

require (
	github.com/anishathalye/porcupine v1.3.0
	github.com/mark3labs/flyt v0.0.0
	verif.local/simrt v0.0.0
)

replace github.com/mark3labs/flyt => %s
replace verif.local/simrt => %s
`, repoDir(), filepath.Join(verifDir, "simrt"))
	os.WriteFile(filepath.Join(scratch, "go.race.mod"), []byte(gomodRace), 0o644)
	if sum, err := os.ReadFile(filepath.Join(verifDir, "engines", "go.sum")); err == nil {
		os.WriteFile(filepath.Join(scratch, "go.sum"), sum, 0o644)
		os.WriteFile(filepath.Join(scratch, "go.race.sum"), sum, 0o644)
	}
}

var built = map[string]string{}

func buildEngine(name string, race bool) string {
	key := name
	if race {
		key += "-race"
	}
	if p, ok := built[key]; ok {
		return p
	}
	bin := filepath.Join(scratch, key+".test")
	args := []string{"test", "-c", "-vet=off", "-o", bin}
	if race {
		args = append(args, "-race", "-modfile="+filepath.Join(scratch, "go.race.mod"))
	} else {
		args = append(args, "-modfile="+filepath.Join(scratch, "go.mod"))
	}
	args = append(args, "./"+name)
	out, err := runCmd(filepath.Join(verifDir, "engines"), goEnv, "go1.26.8", args...)
	if err != nil {
		die(2, "building engine %s against %s failed (build trouble, not a verdict):\n%s", name, repoDir(), out)
	}
	built[key] = bin
	return bin
}

type simEvent = json.RawMessage

type found struct {
	Prop     string          `json:"property"`
	Class    string          `json:"class"`
	Msg      string          `json:"message"`
	Engine   string          `json:"engine"`
	BaseSeed uint64          `json:"seed"`
	Index    int             `json:"run_index"`
	RunSeed  uint64          `json:"run_seed"`
	Scenario json.RawMessage `json:"scenario"`
	Tape     []int           `json:"tape"`
	Events   json.RawMessage `json:"events,omitempty"`
	LogHash  string          `json:"log_hash"`
	Blocked  []string        `json:"blocked,omitempty"`
	Panics   []string        `json:"panics,omitempty"`
	Shrunk   json.RawMessage `json:"shrunk,omitempty"`
	Source   string          `json:"source_sha,omitempty"`
	Corpus   bool            `json:"from_corpus,omitempty"`
	Procs    int             `json:"gomaxprocs,omitempty"`
	Race     *raceInfo       `json:"race_pass,omitempty"`
	Replay   string          `json:"replay_cmd,omitempty"`
}

type raceInfo struct {
	Report     string `json:"report"`
	Reproduced string `json:"reproduced"`
}

type workerStats struct {
	Runs          int             `json:"runs"`
	CorpusRuns    int             `json:"corpus_runs"`
	Nontrivial    int             `json:"nontrivial"`
	SimTimeNs     int64           `json:"sim_time_ns"`
	Steps         int64           `json:"steps"`
	Decisions     int64           `json:"decisions"`
	EnabledSum    int64           `json:"enabled_sum"`
	Strategies    map[string]int  `json:"strategies"`
	Faults        map[string]int  `json:"faults"`
	Probes        map[string]int  `json:"probes"`
	Reruns        int             `json:"determinism_reruns"`
	Mismatches    int             `json:"determinism_mismatches"`
	Samples       json.RawMessage `json:"samples"`
	Found         *found          `json:"found,omitempty"`
	WallS         float64         `json:"wall_s"`
	SigFile       string          `json:"sig_file"`
	TimedOut      bool            `json:"timed_out"`
	MismatchNotes []string        `json:"mismatch_notes,omitempty"`
	RaceReport    string          `json:"race_report,omitempty"`
}

type partResult struct {
	Part    part
	Workers []*workerStats
}

func procs() int {
	if v := os.Getenv("VERIF_PROCS"); v != "" {
		n, _ := strconv.Atoi(v)
		if n > 0 {
			return n
		}
	}
	n := runtime.NumCPU()
	if n > 16 {
		n = 16
	}
	return n
}

func runPart(prop, tier string, seed uint64, p part, budgetS int) *partResult {
	bin := buildEngine(p.Engine, p.Race)
	total := p.Quick
	if tier == "thorough" {
		total = p.Thorough
	}
	if v := os.Getenv("VERIF_RUNS"); v != "" {
		total, _ = strconv.Atoi(v)
	}
	P := procs()
	per := (total + P - 1) / P
	pr := &partResult{Part: p, Workers: make([]*workerStats, P)}
	var wg sync.WaitGroup
	var mu sync.Mutex
	var infra []string
	for w := 0; w < P; w++ {
		wg.Add(1)
		go func(w int) {
			defer wg.Done()
			out := filepath.Join(scratch, fmt.Sprintf("%s-%s-w%d.json", prop, p.Engine, w))
			if p.Race {
				out = filepath.Join(scratch, fmt.Sprintf("%s-%s-race-w%d.json", prop, p.Engine, w))
			}
			env := []string{
				"SIM_MODE=search", "SIM_PROP=" + prop, "SIM_TIER=" + tier,
				"SIM_SEED=" + strconv.FormatUint(seed, 10),
				"SIM_START=" + strconv.Itoa(w), "SIM_STRIDE=" + strconv.Itoa(P), "SIM_COUNT=" + strconv.Itoa(per),
				"SIM_BUDGET_S=" + strconv.Itoa(budgetS), "SIM_OUT=" + out,
				"SIM_WATCHDOG_S=" + strconv.Itoa(budgetS+600),
				"GORACE=halt_on_error=1 exitcode=66",
			}
			if p.Race {
				env = append(env, "SIM_RACE=1")
			}
			if kf := knownFor(prop); len(kf) > 0 {
				kb, _ := json.Marshal(kf)
				env = append(env, "SIM_KNOWN="+string(kb))
			}
			// the library may consult GOMAXPROCS: half of the workers run with one
			// P, the others with four (the simulation itself does not depend on it:
			// selftest-determinism compares 1/4/16)
			cpu := "1"
			if w%2 == 1 && !p.Race {
				cpu = "4"
			}
			text, err := runCmd(scratch, env, bin, "-test.run", "^TestSim$", "-test.timeout", "0", "-test.cpu", cpu)
			st := &workerStats{}
			b, rerr := os.ReadFile(out)
			if p.Race && err != nil && strings.Contains(text, "DATA RACE") {
				// the race detector stopped the process: the workload in flight is in the side file
				if rerr == nil {
					json.Unmarshal(b, st)
				}
				st.RaceReport = text
				if cur, e2 := os.ReadFile(out + ".current"); e2 == nil {
					f := &found{}
					json.Unmarshal(cur, f)
					f.Prop, f.Class, f.Msg, f.Engine, f.BaseSeed = prop, prop+".data-race", "data race reported by the race detector (auxiliary pass on the uninstrumented tree)", p.Engine, seed
					f.Race = &raceInfo{Report: trimReport(text)}
					st.Found = f
				}
				pr.Workers[w] = st
				return
			}
			if err != nil || rerr != nil {
				mu.Lock()
				infra = append(infra, fmt.Sprintf("worker %d of %s: %v\n%s", w, p.Engine, err, tail(text, 4000)))
				mu.Unlock()
				return
			}
			if e := json.Unmarshal(b, st); e != nil {
				mu.Lock()
				infra = append(infra, fmt.Sprintf("worker %d: bad stats: %v", w, e))
				mu.Unlock()
				return
			}
			pr.Workers[w] = st
		}(w)
	}
	wg.Wait()
	if len(infra) > 0 {
		// a worker process died. If another worker found a violation, that finding
		// stands on its own (it is replayed in a fresh process before it is
		// reported); the crash is reported next to it. Otherwise: no verdict.
		anyFound := false
		for _, st := range pr.Workers {
			if st != nil && st.Found != nil {
				anyFound = true
			}
		}
		if !anyFound {
			die(2, "engine trouble (not a verdict):\n%s", strings.Join(infra, "\n---\n"))
		}
		fmt.Fprintf(os.Stderr, "vcheck: %d worker process(es) died (the library keeps state across runs, or crashed the process); a violation found by another worker is handled below:\n%s\n", len(infra), tail(infra[0], 1500))
	}
	return pr
}

func trimReport(s string) string {
	i := strings.Index(s, "WARNING: DATA RACE")
	if i < 0 {
		return tail(s, 3000)
	}
	s = s[i:]
	if len(s) > 6000 {
		s = s[:6000]
	}
	return s
}

func tail(s string, n int) string {
	if len(s) > n {
		return "..." + s[len(s)-n:]
	}
	return s
}

func engineMode(engine string, race bool, mode string, in, out string, extra ...string) (string, error) {
	bin := buildEngine(engine, race)
	env := append([]string{"SIM_MODE=" + mode, "SIM_IN=" + in, "SIM_OUT=" + out, "SIM_WATCHDOG_S=900"}, extra...)
	cpu := "1"
	if b, err := os.ReadFile(in); err == nil {
		var f struct {
			Procs int `json:"gomaxprocs"`
		}
		if json.Unmarshal(b, &f) == nil && f.Procs > 1 {
			cpu = strconv.Itoa(f.Procs)
		}
	}
	return runCmd(scratch, env, bin, "-test.run", "^TestSim$", "-test.timeout", "0", "-test.cpu", cpu)
}

type replayResult struct {
	Reproduced bool            `json:"reproduced"`
	Class      string          `json:"class"`
	Msg        string          `json:"message"`
	LogHash    string          `json:"log_hash"`
	SameLog    bool            `json:"same_log"`
	Events     json.RawMessage `json:"events,omitempty"`
}

// isolatedSearch runs the first n generated scenarios of every simulation part
// with one engine process per run (16 at a time) and returns the finding with
// the lowest index, if any. Used only when the library under test carries state
// from run to run inside a process, so that ordinary findings do not replay.
func isolatedSearch(prop, tier string, seed uint64, parts []part, n int) *found {
	var best *found
	for _, p := range parts {
		if p.Race {
			continue
		}
		bin := buildEngine(p.Engine, false)
		var mu sync.Mutex
		var wg sync.WaitGroup
		next := 1 // (index 0 would run the preface corpus first)
		stop := false
		for w := 0; w < procs(); w++ {
			wg.Add(1)
			go func(w int) {
				defer wg.Done()
				for {
					mu.Lock()
					i := next
					next++
					done := stop || i > n
					mu.Unlock()
					if done {
						return
					}
					out := filepath.Join(scratch, fmt.Sprintf("iso-%s-%d.json", p.Engine, w))
					env := []string{
						"SIM_MODE=search", "SIM_PROP=" + prop, "SIM_TIER=" + tier,
						"SIM_SEED=" + strconv.FormatUint(seed, 10),
						"SIM_START=" + strconv.Itoa(i), "SIM_STRIDE=1", "SIM_COUNT=1",
						"SIM_BUDGET_S=120", "SIM_OUT=" + out, "SIM_WATCHDOG_S=300",
					}
					if kf := knownFor(prop); len(kf) > 0 {
						kb, _ := json.Marshal(kf)
						env = append(env, "SIM_KNOWN="+string(kb))
					}
					if _, err := runCmd(scratch, env, bin, "-test.run", "^TestSim$", "-test.timeout", "0", "-test.cpu", "1"); err != nil {
						continue
					}
					st := &workerStats{}
					b, err := os.ReadFile(out)
					if err != nil || json.Unmarshal(b, st) != nil || st.Found == nil {
						continue
					}
					mu.Lock()
					stop = true
					if best == nil || uint(st.Found.Index) < uint(best.Index) {
						best = st.Found
					}
					mu.Unlock()
					return
				}
			}(w)
		}
		wg.Wait()
		if best != nil {
			return best
		}
	}
	return nil
}

// handleViolation shrinks, replays in a fresh process, writes the replay file.
func handleViolation(f *found, race bool) string {
	rdir := envOr("VERIF_REPLAY_DIR", filepath.Join(verifDir, "replays"))
	os.MkdirAll(rdir, 0o755)
	name := fmt.Sprintf("%s-%d-%d.json", f.Prop, f.BaseSeed, f.Index)
	if f.Index < 0 {
		name = fmt.Sprintf("%s-%d-corpus%d.json", f.Prop, f.BaseSeed, -f.Index-1)
	}
	path := filepath.Join(rdir, name)
	f.Source = istats.SourceSHA
	f.Replay = filepath.Join(verifDir, "check") + " --replay " + path
	if race {
		// monitoring pass: re-detection is attempted, not guaranteed
		in := filepath.Join(scratch, "race-found.json")
		b, _ := json.Marshal(f)
		os.WriteFile(in, b, 0o644)
		hits := 0
		for i := 0; i < 5; i++ {
			text, err := engineMode(f.Engine, true, "replay", in, filepath.Join(scratch, "race-replay.json"), "GORACE=halt_on_error=1 exitcode=66", "SIM_RACE=1")
			if err != nil && strings.Contains(text, "DATA RACE") {
				hits++
			}
		}
		f.Race.Reproduced = fmt.Sprintf("%d/5", hits)
		b, _ = json.MarshalIndent(f, "", " ")
		os.WriteFile(path, b, 0o644)
		return path
	}
	in := filepath.Join(scratch, "found.json")
	b, _ := json.Marshal(f)
	os.WriteFile(in, b, 0o644)
	min := filepath.Join(scratch, "min.json")
	text, err := engineMode(f.Engine, false, "shrink", in, min, "SIM_BUDGET_S="+envOr("VERIF_SHRINK_S", "60"))
	if err != nil {
		// the shrinker runs many candidates in one process; a library that keeps
		// state across runs (a package-level cache, goroutines that outlive a run)
		// can kill that process. The unminimised finding is then replayed as it is.
		fmt.Fprintf(os.Stderr, "vcheck: shrinking failed, the finding is reported unminimised:\n%s\n", tail(text, 1500))
		os.WriteFile(min, b, 0o644)
	}
	rp := filepath.Join(scratch, "replay.json")
	text, err = engineMode(f.Engine, false, "replay", min, rp)
	if err != nil {
		die(2, "replay process failed:\n%s", tail(text, 4000))
	}
	var rr replayResult
	rb, _ := os.ReadFile(rp)
	json.Unmarshal(rb, &rr)
	if !rr.Reproduced || !rr.SameLog {
		// the shrinker runs its candidates in one process: with a library that
		// carries state from run to run a "smaller" case may violate only thanks to
		// what earlier candidates left behind. Fall back to the finding as found.
		fmt.Fprintf(os.Stderr, "vcheck: the minimised case does not reproduce in a fresh process; falling back to the unminimised finding\n")
		os.WriteFile(min, b, 0o644)
		if text, err = engineMode(f.Engine, false, "replay", min, rp); err != nil {
			die(2, "replay process failed:\n%s", tail(text, 4000))
		}
		rr = replayResult{}
		rb, _ = os.ReadFile(rp)
		json.Unmarshal(rb, &rr)
	}
	if !rr.Reproduced || !rr.SameLog {
		die(2, "the minimised replay file did not reproduce in a fresh process (class %q, same log %v): determinism failure of the machinery, not a verdict", rr.Class, rr.SameLog)
	}
	mb, _ := os.ReadFile(min)
	var mf found
	json.Unmarshal(mb, &mf)
	mf.Source = istats.SourceSHA
	mf.Replay = f.Replay
	out, _ := json.MarshalIndent(&mf, "", " ")
	os.WriteFile(path, out, 0o644)
	*f = mf
	return path
}

func distinctSigs(files []string) int {
	seen := map[uint64]struct{}{}
	for _, fn := range files {
		f, err := os.Open(fn)
		if err != nil {
			continue
		}
		r := bufio.NewReader(f)
		var b [8]byte
		for {
			if _, err := io.ReadFull(r, b[:]); err != nil {
				break
			}
			seen[binary.LittleEndian.Uint64(b[:])] = struct{}{}
		}
		f.Close()
	}
	return len(seen)
}

func addMap(dst, src map[string]int) {
	for k, v := range src {
		dst[k] += v
	}
}

type knownFinding struct {
	Class string `json:"class"`
	Sig   string `json:"sig"`
	What  string `json:"-"`
}

// knownFor reads the open ("known:") entries of KNOWN_FINDINGS.txt for prop:
//
//	known: property=C09 class=C09.slot sig="item 3" free text describing what fails
//
// "fixed:" entries suppress nothing and are ignored here.
func knownFor(prop string) []knownFinding {
	b, err := os.ReadFile(filepath.Join(verifDir, "KNOWN_FINDINGS.txt"))
	if err != nil {
		return nil
	}
	var out []knownFinding
	for _, line := range strings.Split(string(b), "\n") {
		line = strings.TrimSpace(line)
		if !strings.HasPrefix(line, "known:") {
			continue
		}
		rest := strings.TrimSpace(strings.TrimPrefix(line, "known:"))
		var k knownFinding
		p := ""
		for _, f := range []string{"property", "class", "sig"} {
			key := f + "="
			i := strings.Index(rest, key)
			if i < 0 {
				continue
			}
			v := rest[i+len(key):]
			if strings.HasPrefix(v, "\"") {
				if j := strings.Index(v[1:], "\""); j >= 0 {
					v = v[1 : 1+j]
				}
			} else if j := strings.IndexByte(v, ' '); j >= 0 {
				v = v[:j]
			}
			switch f {
			case "property":
				p = v
			case "class":
				k.Class = v
			case "sig":
				k.Sig = v
			}
		}
		if p == prop && k.Class != "" {
			k.What = strings.TrimSpace(strings.Replace(rest, "property="+prop, "", 1))
			out = append(out, k)
		}
	}
	return out
}

type mustReach struct {
	Engine string
	Probes []string
}

func check(prop, tier string) int {
	cfg, ok := props[prop]
	if !ok {
		die(2, "no check registered for %s", prop)
	}
	seedDefault := uint64(20261002)
	if tier == "thorough" {
		seedDefault = 7
	}
	seed := seedDefault
	if v := os.Getenv("VERIF_SEED"); v != "" {
		s, err := strconv.ParseInt(v, 10, 64)
		if err != nil {
			die(2, "bad VERIF_SEED %q", v)
		}
		seed = uint64(s)
	}
	fmt.Printf("check %s tier=%s VERIF_SEED=%d repo=%s procs=%d\n", prop, tier, seed, repoDir(), procs())
	t0 := time.Now()
	prepare()
	budget := 900
	if tier == "thorough" {
		budget = 3000
	}
	if v := os.Getenv("VERIF_BUDGET_S"); v != "" {
		budget, _ = strconv.Atoi(v)
	}
	cov := map[string]any{}
	evals, nontrivial, corpusRuns := 0, 0, 0
	var sigFiles []string
	var simNs, steps, decisions, enabledSum int64
	strategies, faults, probes := map[string]int{}, map[string]int{}, map[string]int{}
	reruns, mismatches := 0, 0
	var samples []json.RawMessage
	var best *found
	var cands []*found // every worker's first finding (simulation parts only)
	bestRace := false
	perEngine := map[string]any{}
	timedOut := false
	var notes []string
	for _, p := range cfg.Parts {
		pr := runPart(prop, tier, seed, p, budget)
		eRuns := 0
		for _, w := range pr.Workers {
			if w == nil {
				continue
			}
			eRuns += w.Runs + w.CorpusRuns
			if !p.Race {
				evals += w.Runs + w.CorpusRuns
				corpusRuns += w.CorpusRuns
				nontrivial += w.Nontrivial
				sigFiles = append(sigFiles, w.SigFile)
				simNs += w.SimTimeNs
				steps += w.Steps
				decisions += w.Decisions
				enabledSum += w.EnabledSum
				addMap(strategies, w.Strategies)
			}
			addMap(faults, w.Faults)
			addMap(probes, w.Probes)
			reruns += w.Reruns
			mismatches += w.Mismatches
			notes = append(notes, w.MismatchNotes...)
			timedOut = timedOut || w.TimedOut
			if len(samples) < 3 && len(w.Samples) > 0 {
				var ss []json.RawMessage
				json.Unmarshal(w.Samples, &ss)
				for _, s := range ss {
					if len(samples) < 3 {
						samples = append(samples, s)
					}
				}
			}
			if w.Found != nil {
				if !p.Race {
					cands = append(cands, w.Found)
				}
				if best == nil || (w.Found.Index >= 0 && best.Index >= 0 && w.Found.Index < best.Index) || (w.Found.Index < 0 && best.Index >= 0) {
					best = w.Found
					bestRace = p.Race
				}
			}
		}
		key := p.Engine
		if p.Race {
			key += " (auxiliary -race pass on the uninstrumented tree: runtime monitoring, not simulation)"
		}
		perEngine[key] = map[string]any{"runs": eRuns}
		if best != nil {
			break
		}
	}
	if best != nil && !bestRace {
		// A finding may depend on what earlier runs in the same worker process left
		// behind in the library (package-level state): take the first finding, in
		// run order, that a fresh process reproduces exactly as recorded.
		sort.SliceStable(cands, func(i, j int) bool { return uint(cands[i].Index) < uint(cands[j].Index) })
		best = nil
		for i, c := range cands {
			in := filepath.Join(scratch, fmt.Sprintf("cand%d.json", i))
			b, _ := json.Marshal(c)
			os.WriteFile(in, b, 0o644)
			rp := filepath.Join(scratch, fmt.Sprintf("cand%d-replay.json", i))
			if _, err := engineMode(c.Engine, false, "replay", in, rp); err != nil {
				continue
			}
			var rr replayResult
			rb, _ := os.ReadFile(rp)
			json.Unmarshal(rb, &rr)
			if rr.Reproduced && rr.SameLog {
				best = c
				break
			}
		}
		if best == nil {
			// every finding depended on what earlier runs had left behind. Last
			// resort: a search in which every run is the first and only run of its
			// process - what such a run violates, a fresh process reproduces
			fmt.Fprintf(os.Stderr, "vcheck: none of the %d findings reproduces in a fresh process; searching again with one process per run\n", len(cands))
			best = isolatedSearch(prop, tier, seed, cfg.Parts, 6000)
		}
		if best == nil {
			die(2, "none of the %d findings reproduces in a fresh process as recorded (%d of %d re-executed runs differed from their first execution): something carries state from run to run inside a worker process; machinery trouble, not a verdict", len(cands), mismatches, reruns)
		}
	}
	if mismatches > 0 && best != nil {
		// Re-executed runs differed AND a run violated the property. The usual
		// reason is state that the library carries from one run to the next inside
		// a worker process (a package-level cache). The finding stands only if its
		// minimised replay file reproduces it in a fresh process with the same log
		// (handleViolation insists on that and exits 2 otherwise).
		fmt.Fprintf(os.Stderr, "vcheck: note: %d of %d re-executed runs differed from their first execution (%v) - state carried between runs inside one process; the finding below is reported because its replay file reproduces it in a fresh process\n", mismatches, reruns, notes)
	} else if mismatches > 0 {
		die(2, "determinism recheck failed for %d of %d re-executed runs (%v): machinery trouble, not a verdict", mismatches, reruns, notes)
	}
	wall := time.Since(t0).Seconds()
	distinct := distinctSigs(sigFiles)
	violations := 0
	var replayPath string
	if best != nil {
		violations = 1
		replayPath = handleViolation(best, bestRace)
		cov["violation"] = map[string]any{"class": best.Class, "message": best.Msg, "replay": replayPath, "shrunk": best.Shrunk}
	}
	cov["evaluations"] = evals
	cov["distinct_nontrivial"] = distinct
	cov["nontrivial_runs"] = nontrivial
	cov["corpus_cases"] = corpusRuns
	cov["seeded_runs"] = evals - corpusRuns
	cov["rule"] = cfg.Rule
	if len(samples) == 0 {
		samples = append(samples, json.RawMessage(`"no non-trivial run in this invocation"`))
	}
	cov["samples"] = samples
	cov["simulated_time_s"] = float64(simNs) / 1e9
	cov["scheduler_steps"] = steps
	cov["decision_points"] = decisions
	if decisions > 0 {
		cov["mean_enabled_set"] = float64(enabledSum) / float64(decisions)
	}
	cov["strategies"] = strategies
	cov["fault_fired"] = faults
	// completion orders of small batches: reported as a count, not key by key
	orders := map[string]int{}
	for k := range probes {
		if strings.HasPrefix(k, "order/") {
			parts := strings.Split(k, "/")
			orders[parts[1]+" "+parts[2]]++
			delete(probes, k)
		}
	}
	if len(orders) > 0 {
		cov["distinct_completion_orders_reached"] = orders
	}
	cov["probes"] = probes
	cov["determinism_recheck"] = map[string]int{"reruns": reruns, "mismatches": mismatches}
	cov["engines"] = perEngine
	cov["procs"] = procs()
	if wall > 0 {
		cov["runs_per_hour"] = int(float64(evals) / wall * 3600)
	}
	cov["budget_cut_short"] = timedOut
	cov["gomaxprocs_of_worker_processes"] = "1 on even-numbered workers, 4 on odd-numbered ones (the library may consult it; a violation's replay file records the value and is replayed with it)"
	cov["instrumentation"] = map[string]any{"sites": istats.Sites, "uninstrumented_sites": istats.Uninstr, "source_sha": istats.SourceSHA, "files": istats.Files, "rule_r9_dropped_because_copy_did_not_compile": r9Off}
	cov["real_vs_stub"] = map[string]string{
		"real":                         "every line of flyt's root package (instrumented copy of the working tree), Go channels, select, context, encoding/json, reflect",
		"simulated":                    "sync.Mutex/RWMutex/WaitGroup/Once (simsync), goroutine scheduling at instrumented points (seeded scheduler), the clock (testing/synctest fake clock), map iteration order",
		"stub":                         "user nodes / callbacks / pool tasks / store clients (scripted by the harness: they are the environment)",
		"not_simulated_because_absent": "network, disk, process crash/restart, clock skew, allocation failure",
	}
	ev := map[string]any{
		"property_id": prop, "tier": tier, "seed": int64(seed), "level": "exploration",
		"coverage": cov, "assumptions": append(append([]string{}, commonAssumptions...), cfg.Assumptions...), "wall_s": wall, "violations": violations,
	}
	edir := envOr("VERIF_EVIDENCE_DIR", filepath.Join(verifDir, "evidence"))
	os.MkdirAll(edir, 0o755)
	eb, _ := json.MarshalIndent(ev, "", " ")
	if err := os.WriteFile(filepath.Join(edir, prop+".json"), eb, 0o644); err != nil {
		die(2, "writing evidence: %v", err)
	}
	for _, k := range knownFor(prop) {
		fmt.Printf("KNOWN-FINDING: property=%s %s\n", prop, k.What)
	}
	fmt.Printf("%s %s: %d runs, %d distinct non-trivial, %.1fs simulated, %.1fs wall\n", prop, tier, evals, distinct, float64(simNs)/1e9, wall)
	if best != nil {
		fmt.Printf("violation class=%s: %s\n", best.Class, best.Msg)
		fmt.Printf("VIOLATION property=%s replay=%s\n", prop, replayPath)
		return 1
	}
	if tier == "thorough" && !timedOut {
		for _, mr := range cfg.mustReach() {
			if probes[mr] == 0 {
				die(2, "probe %q stayed at 0 in a thorough run: the workload does not reach what it claims (machinery trouble, not a verdict)", mr)
			}
		}
	}
	return 0
}

func doReplay(path string) int {
	if abs, err := filepath.Abs(path); err == nil {
		path = abs
	}
	b, err := os.ReadFile(path)
	if err != nil {
		die(2, "%v", err)
	}
	var f found
	if err := json.Unmarshal(b, &f); err != nil {
		die(2, "parse %s: %v", path, err)
	}
	prepare()
	if f.Race != nil {
		hits := 0
		var last string
		for i := 0; i < 5; i++ {
			text, err := engineMode(f.Engine, true, "replay", path, filepath.Join(scratch, "rr.json"), "GORACE=halt_on_error=1 exitcode=66", "SIM_RACE=1")
			if err != nil && strings.Contains(text, "DATA RACE") {
				hits++
				last = trimReport(text)
			}
		}
		fmt.Printf("race pass re-run 5 times: race reported %d/5\n%s\n", hits, last)
		if hits > 0 {
			fmt.Printf("VIOLATION property=%s replay=%s\n", f.Prop, path)
			return 1
		}
		return 0
	}
	rp := filepath.Join(scratch, "replay.json")
	text, err := engineMode(f.Engine, false, "replay", path, rp, "SIM_VERBOSE=1")
	if err != nil {
		die(2, "replay failed:\n%s", tail(text, 4000))
	}
	var rr replayResult
	rb, _ := os.ReadFile(rp)
	json.Unmarshal(rb, &rr)
	fmt.Printf("replay of %s on %s (source %s, recorded on %s)\n", path, repoDir(), istats.SourceSHA, f.Source)
	fmt.Printf("recorded: class=%s log=%s\nreplayed: class=%s log=%s same_log=%v\n%s\n", f.Class, f.LogHash, rr.Class, rr.LogHash, rr.SameLog, rr.Msg)
	if os.Getenv("VERIF_VERBOSE") != "" {
		fmt.Printf("events: %s\n", rr.Events)
	}
	if rr.Reproduced {
		fmt.Printf("VIOLATION property=%s replay=%s\n", f.Prop, path)
		return 1
	}
	fmt.Println("not reproduced on this tree")
	return 0
}

func main() {
	args := os.Args[1:]
	if len(args) == 2 && args[0] == "--replay" {
		code := doReplay(args[1])
		cleanup()
		os.Exit(code)
	}
	if len(args) >= 1 && args[0] == "selftest-determinism" {
		code := selftestDeterminism()
		cleanup()
		os.Exit(code)
	}
	if len(args) != 2 || (args[1] != "quick" && args[1] != "thorough") {
		fmt.Fprintln(os.Stderr, "usage: check <property> quick|thorough | check --replay <file> | check selftest-determinism")
		os.Exit(2)
	}
	tier := args[1]
	if v := os.Getenv("VERIF_TIER"); v == "quick" || v == "thorough" {
		tier = v
	}
	code := check(args[0], tier)
	cleanup()
	os.Exit(code)
}

// selftestDeterminism: same seeds in many separate processes at several
// GOMAXPROCS values must produce identical event-log hashes.
func selftestDeterminism() int {
	prepare()
	type job struct {
		prop, engine string
	}
	var jobs []job
	seen := map[string]bool{}
	var ids []string
	for id := range props {
		ids = append(ids, id)
	}
	sort.Strings(ids)
	for _, id := range ids {
		for _, p := range props[id].Parts {
			if p.Race {
				continue
			}
			k := id + "/" + p.Engine
			if !seen[k] {
				seen[k] = true
				jobs = append(jobs, job{id, p.Engine})
			}
		}
	}
	n := 200
	if v := os.Getenv("VERIF_RUNS"); v != "" {
		n, _ = strconv.Atoi(v)
	}
	bad := 0
	for _, j := range jobs {
		bin := buildEngine(j.engine, false)
		hashes := map[string]int{}
		var mu sync.Mutex
		var wg sync.WaitGroup
		k := 0
		sem := make(chan struct{}, procs())
		for _, gmp := range []string{"1", "4", "16"} {
			for rep := 0; rep < 10; rep++ {
				k++
				wg.Add(1)
				sem <- struct{}{}
				go func(k int, gmp string) {
					defer wg.Done()
					defer func() { <-sem }()
					out := filepath.Join(scratch, fmt.Sprintf("det-%s-%s-%d.json", j.prop, j.engine, k))
					env := []string{"SIM_MODE=search", "SIM_PROP=" + j.prop, "SIM_TIER=quick", "SIM_SEED=424242", "SIM_START=0", "SIM_STRIDE=1",
						"SIM_COUNT=" + strconv.Itoa(n), "SIM_OUT=" + out, "SIM_HASHLOG=1", "GOMAXPROCS=" + gmp}
					text, err := runCmd(scratch, env, bin, "-test.run", "^TestSim$", "-test.timeout", "0")
					if err != nil {
						mu.Lock()
						hashes["ERROR: "+tail(text, 500)]++
						mu.Unlock()
						return
					}
					b, _ := os.ReadFile(out + ".hashlog")
					mu.Lock()
					hashes[fmt.Sprintf("%x", fnv64(b))+fmt.Sprintf(" (%d bytes)", len(b))]++
					mu.Unlock()
				}(k, gmp)
			}
		}
		wg.Wait()
		fmt.Printf("%s/%s: %d processes x %d seeds at GOMAXPROCS 1/4/16 -> %d distinct hash logs %v\n", j.prop, j.engine, k, n, len(hashes), hashes)
		if len(hashes) != 1 {
			bad++
		}
	}
	if bad > 0 {
		fmt.Printf("DETERMINISM FAILURE in %d engine/property pairs\n", bad)
		return 2
	}
	fmt.Println("determinism selftest passed")
	return 0
}

func fnv64(b []byte) uint64 {
	h := uint64(14695981039346656037)
	for _, c := range b {
		h ^= uint64(c)
		h *= 1099511628211
	}
	return h
}
