package main

// Per-property configuration: which engine(s) decide it, run counts per tier,
// the rule that makes a run non-trivial / distinct, the trusted base.

var commonAssumptions = []string{
	"interleavings are explored at instrumented points only (simulated locks / wait groups, channel, select, timer and context operations, dynamic callback calls, goroutine starts); code between two points is atomic in the simulator",
	"simsync's Mutex/RWMutex/WaitGroup model the documented semantics of package sync (no writer preference, no starvation mode)",
	"channels, select, context and the fake clock are the real Go runtime inside a testing/synctest bubble (go1.26.8)",
	"seeded search samples schedules and fault scripts: a clean batch is evidence, not proof",
}

func (c *propCfg) mustReach() []string { return c.Must }

var props = map[string]*propCfg{
	"C12": {
		Parts: []part{{Engine: "poolsim", Quick: 16000, Thorough: 800000}, {Engine: "racestress", Race: true, Quick: 1600, Thorough: 40000}},
		Rule:  "one evaluation = one simulated pool lifetime (size -1..16, 1-3 Submit*/Wait rounds, 1-4 submitters, 0..500 tasks, free/sleeping/barrier/run-me-last task bodies) under one seeded schedule; non-trivial = at least two tasks were in flight at once (or, for a 1-worker pool, at least two tasks ran); distinct = distinct hash of (scenario shape, sequence of (task id, site) scheduler choices)",
		Must:  []string{"queue_full_submit_blocked", "all_workers_busy"},
	},
}

func init() {
	props["C13"] = &propCfg{
		Parts: []part{{Engine: "storesim", Quick: 60000, Thorough: 8000000}, {Engine: "racestress", Race: true, Quick: 1600, Thorough: 60000}},
		Rule:  "one evaluation = one simulated history of 2..6 clients x <=5 store operations (<=24 per history) over <=4 keys with unique values, every Lock/RLock a scheduling point, checked with porcupine against a sequential map; non-trivial = at least one pair of operations of different clients overlapped (invoke/return stamped with event sequence numbers); distinct = distinct hash of (scenario shape, scheduler choice sequence)",
		Must:  []string{"merge_overlapped", "clear_overlapped", "porcupine_ok"},
	}
	props["C14"] = &propCfg{
		Parts: []part{{Engine: "storesim", Quick: 24000, Thorough: 4000000}},
		Rule:  "one evaluation = either one client issuing up to 200 operations (refinement against a Go map, operation by operation, including snapshot-mutation and merge-of-alias steps) or 2..4 clients whose GetAll/Keys snapshots are deep-copied at hand-out, poisoned by their holder or left alone, and re-validated at the end; non-trivial = >=3 operations (1 client) or overlapping operations (several clients); distinct = distinct hash of (scenario shape, scheduler choice sequence)",
	}
}

const flowRule = "one evaluation = one generated scenario (nodes of every kind with scripted per-invocation outcomes, flows, batch nodes, configuration, context) executed on the instrumented flyt under one seeded schedule on the fake clock and compared with the reference model; distinct = distinct hash of (scenario, sequence of (task id, site) scheduler choices); "

func init() {
	props["C01"] = &propCfg{Parts: []part{{Engine: "flowsim", Quick: 60000, Thorough: 6000000}},
		Rule: flowRule + "non-trivial = at least three callback invocations"}
	props["C02"] = &propCfg{Parts: []part{{Engine: "flowsim", Quick: 60000, Thorough: 4000000}},
		Rule: flowRule + "non-trivial = at least three callback invocations and at least one injected fault fired",
		Must: []string{"fallback_after_retries", "retry_attempt"}}
	props["C03"] = &propCfg{Parts: []part{{Engine: "flowsim", Quick: 60000, Thorough: 2000000}},
		Rule: flowRule + "non-trivial = at least two node visits on the executed path",
		Must: []string{"self_loop_or_revisit", "node_revisited"}}
	props["C04"] = &propCfg{Parts: []part{{Engine: "flowsim", Quick: 60000, Thorough: 2500000}},
		Rule: flowRule + "non-trivial = at least three callback invocations and (in the faulty configuration) at least one injected fault fired",
		Must: []string{"run_failed_at_prep", "run_failed_at_exec", "run_failed_at_post", "run_failed_at_fb"}}
}

func init() {
	props["C06"] = &propCfg{Parts: []part{{Engine: "flowsim", Quick: 40000, Thorough: 1500000}},
		Rule: flowRule + "non-trivial = at least three callback invocations and at least one fault fired (failing item, error result, slow or gated callback); batch sizes 0..64, concurrency 0..16, all prep shapes",
		Must: []string{"completion_order_reversed", "items_in_flight_together", "all_c_workers_busy"}}
	props["C07"] = &propCfg{Parts: []part{{Engine: "flowsim", Quick: 40000, Thorough: 1500000}},
		Rule: flowRule + "non-trivial = at least three callback invocations and at least one fault fired; batches up to 32 items, budgets 1..4, concurrency 0..8, independent per-item failure scripts",
		Must: []string{"completion_order_reversed", "fallback_after_retries"}}
	props["C08"] = &propCfg{Parts: []part{{Engine: "flowsim", Quick: 30000, Thorough: 1000000}, {Engine: "poolsim", Quick: 12000, Thorough: 400000}},
		Rule: flowRule + "(flowsim: batches with concurrency 0..16 and up to 4c+8 items, half of them with a barrier of min(c,n) mutually dependent executions; poolsim: pools of size -1..16) non-trivial = at least two executions in flight together",
		Must: []string{"all_c_workers_busy", "all_workers_busy"}}
	props["C09"] = &propCfg{Parts: []part{{Engine: "flowsim", Quick: 40000, Thorough: 3000000}},
		Rule: flowRule + "non-trivial = at least three callback invocations and a failing item; batches up to 16 items, concurrency 0..4, stop and continue modes, random schedules and 'failure handled first' schedules (in-flight items parked, failing worker boosted)",
		Must: []string{"items_in_flight_together", "failure_handled_first_schedule", "item_started_on_other_worker_after_failure"}}
}

func init() {
	props["C05"] = &propCfg{Parts: []part{{Engine: "flowsim", Quick: 60000, Thorough: 6000000}},
		Rule: flowRule + "cancellation injected before the run (cancel / expired deadline), synchronously inside one callback invocation on the executed path, or by a deadline strictly inside a callback's simulated sleep or a retry wait; non-trivial = at least three callback invocations and at least one fault fired",
		Must: []string{"run_cut_short", "cancel_landed_in_wait"}}
}

func init() {
	props["C18"] = &propCfg{Parts: []part{{Engine: "flowsim", Quick: 40000, Thorough: 5000000}},
		Rule: flowRule + "every node kind (struct, plain, function nodes with and without a post function, flows used as nodes, batch nodes with 0..3 items and concurrency 0..2) x post action {empty, default, custom}, run directly and as a routed step whose default connection leads to a witness node; non-trivial = at least two node visits"}
}

func init() {
	props["C17"] = &propCfg{Parts: []part{{Engine: "flowsim", Quick: 40000, Thorough: 5000000}},
		Rule: flowRule + "function-style nodes in all 8 Result/Any style mixes, option and builder construction, payloads nil/int/float/string/map/slice/pointer/struct and error results, as single runs, inside flows and as batch exec functions, under retries and fallback; identity of pointers, maps and slices is checked; non-trivial = at least three callback invocations",
		Must: []string{"fallback_after_retries"}}
}

func init() {
	props["C19"] = &propCfg{Parts: []part{{Engine: "flowsim", Quick: 30000, Thorough: 2000000}, {Engine: "poolsim", Quick: 4000, Thorough: 150000}},
		Rule: flowRule + "a function, struct or batch node configured by a sequence of up to 6 settings (max retries, wait, batch concurrency, error handling; option or builder form; functions attached by option or by builder) and probed by a run with failing attempts, waits and concurrent items; the same seed and schedule are then replayed on the canonically configured twin (constructor options only, last values) and what the callbacks saw must be identical; the poolsim part runs pools of size -3..0 (documented default: one worker); non-trivial = at least three callback invocations"}
}

func init() {
	props["C20"] = &propCfg{Parts: []part{{Engine: "flowsim", Quick: 30000, Thorough: 5000000}},
		Rule: flowRule + "budgets 2..5, waits 10..50 ms and 1 h on the fake clock, all failure sequences, single nodes and batch items (sequential and concurrent); one third of the runs cancel at an off-grid instant strictly inside a 1 h retry wait; timestamps are exact simulated times; non-trivial = at least three callback invocations",
		Must: []string{"cancel_landed_in_wait", "retry_attempt"}}
}

func init() {
	props["C10"] = &propCfg{Parts: []part{{Engine: "flowsim", Quick: 40000, Thorough: 2000000}},
		Rule: flowRule + "hierarchical flows of depth 2..4 (inner flows ending by an unconnected action, a nil connection or an error; inner flows targeted from several places); refinement against the flattened interpretation of the model, store identity at every callback, store contents, and - where the hierarchy flattens without cloning - the real flattened flyt.Flow replayed under the same schedule with identical event log; non-trivial = at least two node visits",
		Must: []string{"flattened_twin_compared", "node_revisited"}}
	props["C11"] = &propCfg{Parts: []part{{Engine: "flowsim", Quick: 40000, Thorough: 3000000}},
		Rule: flowRule + "batches of up to 16 items, concurrency 0..4, both error modes, waits 0 / 10 ms / 1 h, cancelled before the run, synchronously inside the exec of a chosen item/attempt, or by a canceller task whose instant the scheduler decides; non-trivial = at least three callback invocations and at least one fault fired",
		Must: []string{"items_in_flight_together"}}
}
