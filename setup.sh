#!/bin/bash
# Run once after a fresh restore (offline): builds the driver and the
# instrumenter and warms the Go build cache (std for go1.26.8, engines).
set -eu
cd "$(dirname "$(readlink -f "$0")")"
export GOFLAGS=-mod=mod GOPROXY=off GOSUMDB=off GOTOOLCHAIN=local
mkdir -p bin evidence replays
go1.26.8 build -o bin/vcheck ./cmd/vcheck
go1.26.8 build -o bin/instrument ./tools/instrument
# warm-up: one tiny run per engine (evidence goes to a scratch directory)
tmp=$(mktemp -d)
trap 'rm -rf "$tmp"' EXIT
for p in C12 C13 C01; do
  VERIF_RUNS=64 VERIF_EVIDENCE_DIR="$tmp" VERIF_REPLAY_DIR="$tmp" ./bin/vcheck $p quick >/dev/null
done
echo "setup ok"
