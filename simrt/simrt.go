// Package simrt is the deterministic-simulation substrate: one simulated run is
// one testing/synctest bubble whose root goroutine is a seeded scheduler. All
// other goroutines of the run ("tasks") park on tickets at instrumented points
// (Yield) and are released one at a time. See /verif/DESIGN.md section 2.
package simrt

import (
	"fmt"
	"hash/fnv"
	"math/rand/v2"
	"runtime"
	"sort"
	"strconv"
	"strings"
	"sync"
	"testing"
	"testing/synctest"
	"time"
)

// Event is one entry of the recorded history. Events are appended only by the
// scheduler goroutine (at the release of the ticket that carries them), so the
// log order is the schedule order.
type Event struct {
	Seq  int    `json:"seq"`
	T    int64  `json:"t"` // simulated nanoseconds since the start of the run
	Task string `json:"task"`
	Kind string `json:"kind"`
	N    int    `json:"n,omitempty"` // node / client / round
	V    int    `json:"v,omitempty"` // visit / op index
	A    int    `json:"a,omitempty"` // attempt
	I    int    `json:"i,omitempty"` // item / task number
	S1   string `json:"s1,omitempty"`
	S2   string `json:"s2,omitempty"`
	S3   string `json:"s3,omitempty"`
}

// Config describes one run.
type Config struct {
	Seed     uint64 // drives the strategy and MapKeys permutations
	Tape     []int  // Replay: the choices to replay (exhausted => 0)
	Replay   bool
	Strategy string // "", "uniform", "sticky50", "sticky90", "pct1".."pct3", "rr", "first"
	MaxSteps int
	Horizon  time.Duration
	// Lockset: check every instrumented access to a map-typed struct field
	// against the locks the accessing task holds (Eraser's lockset discipline
	// with read/write lock modes); violations are listed in Result.Races.
	Lockset bool
}

// Result is everything a run produced.
type Result struct {
	Events     []Event
	Tape       []int
	Steps      int
	Decisions  int
	EnabledSum int
	Deadlock   bool
	Blocked    []string
	StepLimit  bool
	SimTime    time.Duration
	Sig        uint64
	Panics     []string
	Races      []string // lockset violations (Config.Lockset)
	Strategy   string
	Probes     map[string]int
}

type task struct {
	id      string
	path    []int
	spawnN  int
	mapN    uint64
	last    string // last site (for deadlock reports)
	pri     float64
	done    bool
	boosted bool
	held    []heldLock // simulated locks this task holds (lockset checker)
}

type heldLock struct {
	l     any
	write bool
}

// objState is Eraser's per-variable state: virgin -> exclusive(owner) ->
// shared (read by a second task) -> shared-modified (written after sharing).
// cand is the candidate lockset: the locks that protected every access so far
// (a read is protected by a lock held in any mode, a write only by a lock held
// in write mode).
type objState struct {
	state    int
	owner    *task
	cand     map[any]bool
	lastSite [2]string // last read / write site
	reported bool
}

type ticket struct {
	t         *task
	site      string
	cond      func() bool
	onRelease func()
	last      bool
	ch        chan struct{}
}

// Sim is the state of the run in progress.
type Sim struct {
	mu       sync.Mutex // real mutex: short critical sections only, never held while parked
	tasks    map[uint64]*task
	all      []*task
	pending  []*ticket
	live     int
	arrived  chan struct{}
	start    time.Time
	rng      *rand.Rand
	cfg      Config
	res      *Result
	tapePos  int
	strategy string
	lastTask *task
	pctSteps map[int]bool
	rrNext   int
	boost    *task
	adoptN   int
	sigh     uint64
	probes   map[string]int
	objs     map[any]*objState
}

var cur *Sim // one run at a time per process

func goid() uint64 {
	var buf [64]byte
	n := runtime.Stack(buf[:], false)
	// "goroutine 123 ["
	s := buf[len("goroutine "):n]
	var id uint64
	for _, c := range s {
		if c < '0' || c > '9' {
			break
		}
		id = id*10 + uint64(c-'0')
	}
	return id
}

func (s *Sim) taskOf() *task {
	g := goid()
	s.mu.Lock()
	t := s.tasks[g]
	s.mu.Unlock()
	return t
}

// LockAcquired / LockReleased: simsync reports the simulated locks the calling
// task holds (lockset checker).
func LockAcquired(l any, write bool) {
	s := cur
	if s == nil || !s.cfg.Lockset {
		return
	}
	if t := s.taskOf(); t != nil {
		t.held = append(t.held, heldLock{l, write})
	}
}

func LockReleased(l any, write bool) {
	s := cur
	if s == nil || !s.cfg.Lockset {
		return
	}
	if t := s.taskOf(); t != nil {
		for i := len(t.held) - 1; i >= 0; i-- {
			if t.held[i].l == l && t.held[i].write == write {
				t.held = append(t.held[:i], t.held[i+1:]...)
				return
			}
		}
	}
}

// Access is called by the instrumented code before a statement that reads or
// writes a struct field (obj = the field's address). A write is a scheduling
// point, a read is not. With Config.Lockset the access is checked against the
// lockset discipline; the first violation per field is recorded.
func Access(obj any, site string, write bool) {
	s := cur
	if s == nil {
		return
	}
	if write {
		// a plain write to a field is a point where another task may get in
		// (check-then-act on unsynchronised fields becomes explorable)
		yield(site, nil, nil, false)
	}
	if !s.cfg.Lockset {
		return
	}
	t := s.taskOf()
	if t == nil {
		return
	}
	s.mu.Lock()
	defer s.mu.Unlock()
	if s.objs == nil {
		s.objs = map[any]*objState{}
	}
	o := s.objs[obj]
	if o == nil {
		o = &objState{}
		s.objs[obj] = o
	}
	prot := map[any]bool{}
	for _, h := range t.held {
		if h.write || !write {
			prot[h.l] = true
		}
	}
	k := 0
	if write {
		k = 1
	}
	defer func() { o.lastSite[k] = site + " by task " + t.id }()
	switch o.state {
	case 0:
		o.state, o.owner = 1, t
		return
	case 1:
		if o.owner == t {
			return
		}
		o.cand = prot
		if write {
			o.state = 3
		} else {
			o.state = 2
		}
	default:
		for l := range o.cand {
			if !prot[l] {
				delete(o.cand, l)
			}
		}
		if write {
			o.state = 3
		}
	}
	if o.state == 3 && len(o.cand) == 0 && !o.reported {
		o.reported = true
		mode := "read"
		if write {
			mode = "write"
		}
		s.res.Races = append(s.res.Races, fmt.Sprintf("%s of a shared field at %s by task %s holding %d lock(s) in a protecting mode: no lock protects every access (last read at %s, last write at %s)", mode, site, t.id, len(prot), orNone(o.lastSite[0]), orNone(o.lastSite[1])))
	}
}

func orNone(s string) string {
	if s == "" {
		return "none"
	}
	return s
}

// Active reports whether the caller is a task of a running simulation.
func Active() bool {
	s := cur
	if s == nil {
		return false
	}
	return s.taskOf() != nil
}

func pathLess(a, b []int) bool {
	for i := 0; i < len(a) && i < len(b); i++ {
		if a[i] != b[i] {
			return a[i] < b[i]
		}
	}
	return len(a) < len(b)
}

func (s *Sim) poke() {
	select {
	case s.arrived <- struct{}{}:
	default:
	}
}

// Poke tells the scheduler that simulated state changed (used by simsync).
func Poke() {
	if s := cur; s != nil {
		s.poke()
	}
}

// Locked runs f under the simulator's state lock. simsync keeps all its state
// under this lock; enabling conditions are evaluated under it.
func Locked(f func()) {
	s := cur
	if s == nil {
		f()
		return
	}
	s.mu.Lock()
	f()
	s.mu.Unlock()
}

func yield(site string, cond func() bool, onRelease func(), last bool) bool {
	s := cur
	if s == nil {
		return false
	}
	t := s.taskOf()
	if t == nil {
		return false
	}
	return s.yieldT(t, site, cond, onRelease, last)
}

func (s *Sim) yieldT(t *task, site string, cond func() bool, onRelease func(), last bool) bool {
	tk := &ticket{t: t, site: site, cond: cond, onRelease: onRelease, last: last, ch: make(chan struct{})}
	s.mu.Lock()
	t.last = site
	s.pending = append(s.pending, tk)
	s.mu.Unlock()
	s.poke()
	<-tk.ch
	return true
}

// Yield is an unconditional scheduling point. A no-op outside a simulation.
func Yield(site string) { yield(site, nil, nil, false) }

// YieldCond parks the caller until cond holds and the scheduler picks it;
// onRelease runs in the scheduler, atomically with the pick. cond and
// onRelease are called with the simulator's state lock held. Returns false
// (without calling anything) when the caller is not a simulated task.
func YieldCond(site string, cond func() bool, onRelease func()) bool {
	return yield(site, cond, onRelease, false)
}

// YieldLast parks the caller until no ordinary ticket is enabled.
func YieldLast(site string) { yield(site, nil, nil, true) }

// Emit appends an event at a scheduling point of the calling task.
func Emit(e Event) { EmitThen(e, nil) }

// EmitThen is Emit plus a state update executed by the scheduler at the
// release (the only place harness state shared between tasks is mutated).
func EmitThen(e Event, then func()) {
	s := cur
	if s == nil {
		return
	}
	t := s.taskOf()
	if t == nil {
		panic("simrt.Emit outside a simulated task")
	}
	e.Task = t.id
	s.yieldT(t, "ev:"+e.Kind, nil, func() {
		s.appendEvent(&e)
		if then != nil {
			then()
		}
	}, false)
}

// EmitF is the general form: the ticket is enabled when cond holds (nil =
// always); at the release, fill completes the event in the scheduler (the one
// place where harness state shared between tasks may be read and written),
// then the event is appended.
func EmitF(e Event, cond func() bool, fill func(e *Event)) {
	s := cur
	var t *task
	if s != nil {
		t = s.taskOf()
	}
	if t == nil {
		panic("simrt.EmitF outside a simulated task")
	}
	e.Task = t.id
	s.yieldT(t, "ev:"+e.Kind, cond, func() {
		if fill != nil {
			fill(&e)
		}
		s.appendEvent(&e)
	}, false)
}

// EmitWhen is EmitThen with an enabling condition (a gate).
func EmitWhen(e Event, cond func() bool, then func()) {
	s := cur
	var t *task
	if s != nil {
		t = s.taskOf()
	}
	if t == nil {
		panic("simrt.EmitWhen outside a simulated task")
	}
	e.Task = t.id
	s.yieldT(t, "gate:"+e.Kind, cond, func() {
		s.appendEvent(&e)
		if then != nil {
			then()
		}
	}, false)
}

func (s *Sim) appendEvent(e *Event) {
	// called by the scheduler with s.mu held
	e.Seq = len(s.res.Events) + 1
	e.T = int64(time.Since(s.start))
	s.res.Events = append(s.res.Events, *e)
}

// Now is the simulated time since the start of the run.
func Now() time.Duration {
	s := cur
	if s == nil {
		return 0
	}
	return time.Since(s.start)
}

// TaskID is the deterministic id of the calling task ("" if none).
func TaskID() string {
	s := cur
	if s == nil {
		return ""
	}
	if t := s.taskOf(); t != nil {
		return t.id
	}
	return ""
}

// Probe counts a rare condition reached.
func Probe(name string) {
	s := cur
	if s == nil {
		return
	}
	s.mu.Lock()
	s.probes[name]++
	s.mu.Unlock()
}

// Boost gives the calling task strict priority at every decision point until
// it has no enabled ticket at one (it blocked or ended).
func Boost() {
	s := cur
	if s == nil {
		return
	}
	if t := s.taskOf(); t != nil {
		s.mu.Lock()
		s.boost = t
		s.mu.Unlock()
	}
}

// Go starts f as a new simulated task (what an instrumented `go` statement
// becomes). Outside a simulation it is a plain go statement.
func Go(site string, f func()) {
	s := cur
	var parent *task
	if s != nil {
		parent = s.taskOf()
	}
	if parent == nil {
		go f()
		return
	}
	s.mu.Lock()
	parent.spawnN++
	p := make([]int, len(parent.path)+1)
	copy(p, parent.path)
	p[len(parent.path)] = parent.spawnN
	t := &task{id: parent.id + "." + strconv.Itoa(parent.spawnN), path: p}
	t.pri = s.rng.Float64()
	s.all = append(s.all, t)
	s.live++
	s.mu.Unlock()
	go s.runTask(t, "go:"+site, f)
}

// Adopted wraps a function that the runtime will call in a goroutine of its
// own (context.AfterFunc, time.AfterFunc): when it is called inside a
// simulation that goroutine becomes a simulated task, so the scheduler - not
// the Go runtime - decides when its effect becomes visible to the others.
func Adopted(site string, f func()) func() {
	return func() {
		s := cur
		if s == nil {
			f()
			return
		}
		s.mu.Lock()
		s.adoptN++
		t := &task{id: "a." + strconv.Itoa(s.adoptN), path: []int{1 << 30, s.adoptN}}
		t.pri = s.rng.Float64()
		s.all = append(s.all, t)
		s.live++
		s.mu.Unlock()
		s.runTask(t, "adopted:"+site, f)
	}
}

func (s *Sim) runTask(t *task, site string, f func()) {
	g := goid()
	s.mu.Lock()
	s.tasks[g] = t
	s.mu.Unlock()
	defer func() {
		if r := recover(); r != nil {
			buf := make([]byte, 2048)
			n := runtime.Stack(buf, false)
			s.mu.Lock()
			s.res.Panics = append(s.res.Panics, fmt.Sprintf("task %s: %v\n%s", t.id, r, buf[:n]))
			s.mu.Unlock()
		}
		s.mu.Lock()
		delete(s.tasks, g)
		t.done = true
		s.live--
		s.mu.Unlock()
		s.poke()
	}()
	yield(site, nil, nil, false)
	f()
}

func mix(h uint64, v uint64) uint64 {
	h ^= v + 0x9e3779b97f4a7c15 + (h << 6) + (h >> 2)
	return h
}

func hashStr(s string) uint64 {
	h := fnv.New64a()
	h.Write([]byte(s))
	return h.Sum64()
}

func (s *Sim) pickStrategy() {
	st := s.cfg.Strategy
	if st == "" {
		switch s.rng.IntN(10) {
		case 0, 1, 2:
			st = "uniform"
		case 3:
			st = "sticky50"
		case 4, 5:
			st = "sticky90"
		case 6:
			st = "pct1"
		case 7:
			st = "pct2"
		case 8:
			st = "pct3"
		default:
			if s.rng.IntN(2) == 0 {
				st = "rr"
			} else {
				st = "first"
			}
		}
	}
	s.strategy = st
	if strings.HasPrefix(st, "pct") {
		d, _ := strconv.Atoi(st[3:])
		s.pctSteps = map[int]bool{}
		for i := 0; i < d; i++ {
			s.pctSteps[1+s.rng.IntN(400)] = true
		}
	}
}

// choose returns the index into enabled (sorted by task id).
func (s *Sim) choose(enabled []*ticket) int {
	n := len(enabled)
	if s.cfg.Replay {
		if s.tapePos < len(s.cfg.Tape) {
			v := s.cfg.Tape[s.tapePos]
			s.tapePos++
			if v < 0 {
				v = -v
			}
			return v % n
		}
		s.tapePos++
		return 0
	}
	switch {
	case s.strategy == "uniform":
		return s.rng.IntN(n)
	case strings.HasPrefix(s.strategy, "sticky"):
		p := 0.5
		if s.strategy == "sticky90" {
			p = 0.9
		}
		if s.lastTask != nil && s.rng.Float64() < p {
			for i, tk := range enabled {
				if tk.t == s.lastTask {
					return i
				}
			}
		}
		return s.rng.IntN(n)
	case strings.HasPrefix(s.strategy, "pct"):
		best := 0
		for i, tk := range enabled {
			if tk.t.pri > enabled[best].t.pri {
				best = i
			}
		}
		if s.pctSteps[s.res.Decisions] {
			// priority change point: demote the current favourite
			enabled[best].t.pri = -s.rng.Float64()
			best = 0
			for i, tk := range enabled {
				if tk.t.pri > enabled[best].t.pri {
					best = i
				}
			}
		}
		return best
	case s.strategy == "rr":
		s.rrNext++
		return s.rrNext % n
	default: // "first"
		return 0
	}
}

// Run executes main as task "m" of a fresh simulated run and returns what
// happened. It must be called from a test (synctest needs a *testing.T).
func Run(t *testing.T, cfg Config, main func()) *Result {
	if cfg.MaxSteps == 0 {
		cfg.MaxSteps = 50000
	}
	if cfg.Horizon == 0 {
		cfg.Horizon = 10000 * time.Hour
	}
	res := &Result{}
	s := &Sim{
		tasks:  map[uint64]*task{},
		rng:    rand.New(rand.NewPCG(cfg.Seed, 0x5eed)),
		cfg:    cfg,
		res:    res,
		probes: map[string]int{},
	}
	s.pickStrategy()
	res.Strategy = s.strategy
	if cfg.Replay {
		res.Strategy = "replay"
	}
	func() {
		defer func() {
			if r := recover(); r != nil {
				// synctest's own deadlock panic after we already diagnosed one
				msg := fmt.Sprint(r)
				if !strings.Contains(msg, "deadlock") {
					panic(r)
				}
				res.Deadlock = true
			}
		}()
		synctest.Test(t, func(t *testing.T) {
			s.arrived = make(chan struct{}, 1)
			s.start = time.Now()
			cur = s
			defer func() { cur = nil }()
			mt := &task{id: "m", path: []int{0}}
			mt.pri = s.rng.Float64()
			s.all = append(s.all, mt)
			s.live = 1
			go s.runTask(mt, "start:m", main)
			s.loop()
			res.SimTime = time.Since(s.start)
		})
	}()
	res.Sig = s.sigh
	res.Probes = s.probes
	return res
}

func (s *Sim) loop() {
	horizon := time.NewTimer(s.cfg.Horizon)
	defer horizon.Stop()
	res := s.res
	for {
		select {
		case <-s.arrived:
		default:
		}
		synctest.Wait()
		s.mu.Lock()
		if s.live == 0 && len(s.pending) == 0 {
			s.mu.Unlock()
			return
		}
		if res.Steps >= s.cfg.MaxSteps {
			res.StepLimit = true
			s.describeBlocked()
			s.mu.Unlock()
			return
		}
		var enabled, lasts []*ticket
		for _, tk := range s.pending {
			if tk.cond != nil && !tk.cond() {
				continue
			}
			if tk.last {
				lasts = append(lasts, tk)
			} else {
				enabled = append(enabled, tk)
			}
		}
		if len(enabled) == 0 {
			enabled = lasts
		}
		if len(enabled) == 0 {
			s.mu.Unlock()
			select {
			case <-s.arrived:
				continue
			case <-horizon.C:
				s.mu.Lock()
				res.Deadlock = true
				s.describeBlocked()
				s.mu.Unlock()
				return
			}
		}
		sort.Slice(enabled, func(i, j int) bool { return pathLess(enabled[i].t.path, enabled[j].t.path) })
		var pick *ticket
		if s.boost != nil {
			for _, tk := range enabled {
				if tk.t == s.boost {
					pick = tk
				}
			}
			if pick == nil {
				s.boost = nil
			}
		}
		if pick == nil {
			if len(enabled) == 1 {
				pick = enabled[0]
			} else {
				res.Decisions++
				res.EnabledSum += len(enabled)
				i := s.choose(enabled)
				res.Tape = append(res.Tape, i)
				pick = enabled[i]
			}
		}
		res.Steps++
		s.lastTask = pick.t
		s.sigh = mix(s.sigh, hashStr(pick.t.id)^(hashStr(pick.site)<<1))
		for i, tk := range s.pending {
			if tk == pick {
				s.pending = append(s.pending[:i], s.pending[i+1:]...)
				break
			}
		}
		if pick.onRelease != nil {
			pick.onRelease()
		}
		s.mu.Unlock()
		close(pick.ch)
	}
}

func (s *Sim) describeBlocked() {
	for _, t := range s.all {
		if t.done {
			continue
		}
		state := "blocked in runtime (channel/select/timer) after " + t.last
		for _, tk := range s.pending {
			if tk.t == t {
				state = "parked at " + tk.site + " (condition false)"
				if tk.cond == nil || tk.cond() {
					state = "parked at " + tk.site + " (enabled)"
				}
			}
		}
		s.res.Blocked = append(s.res.Blocked, t.id+": "+state)
	}
}

// SelectStart picks which case of an instrumented select statement is polled
// first: a deterministic function of (run seed, task, per-task counter).
func SelectStart(site string, n int) int {
	s := cur
	if s == nil || n < 2 {
		return 0
	}
	t := s.taskOf()
	if t == nil {
		return 0
	}
	s.mu.Lock()
	t.mapN++
	h := mix(mix(s.cfg.Seed, hashStr(t.id)), t.mapN^0x73656c)
	s.mu.Unlock()
	return int(SplitMix(h) % uint64(n))
}

// SplitMix is the splitmix64 finaliser.
func SplitMix(x uint64) uint64 {
	x += 0x9e3779b97f4a7c15
	x = (x ^ (x >> 30)) * 0xbf58476d1ce4e5b9
	x = (x ^ (x >> 27)) * 0x94d049bb133111eb
	return x ^ (x >> 31)
}

// MapKeys returns the keys of m sorted and then permuted by a hash of the
// run's seed, the calling task and its per-task counter: deterministic per
// run, varied across runs. Outside a simulation the keys are just sorted.
func MapKeys[K interface {
	~int | ~int8 | ~int16 | ~int32 | ~int64 | ~uint | ~uint8 | ~uint16 | ~uint32 | ~uint64 | ~uintptr | ~float32 | ~float64 | ~string
}, V any](m map[K]V) []K {
	keys := make([]K, 0, len(m))
	for k := range m {
		keys = append(keys, k)
	}
	sort.Slice(keys, func(i, j int) bool { return keys[i] < keys[j] })
	s := cur
	if s == nil || len(keys) < 2 {
		return keys
	}
	t := s.taskOf()
	if t == nil {
		return keys
	}
	s.mu.Lock()
	t.mapN++
	h := mix(mix(s.cfg.Seed, hashStr(t.id)), t.mapN)
	s.mu.Unlock()
	r := rand.New(rand.NewPCG(h, 0x6d61706b))
	r.Shuffle(len(keys), func(i, j int) { keys[i], keys[j] = keys[j], keys[i] })
	return keys
}
