// Package simsync stands in for package sync in the instrumented copy of the
// system under test. Mutex, RWMutex, WaitGroup and Once are simulated: their
// state belongs to the simulator, acquisition is a scheduling point with an
// enabling condition, and the seeded scheduler decides who gets in. Callers
// that are not simulated tasks (construction code outside a run, plain tests)
// fall through to the real primitives. Everything else in sync is forwarded.
package simsync

import (
	"sync"

	"verif.local/simrt"
)

type (
	Locker = sync.Locker
	Map    = sync.Map
	Pool   = sync.Pool
	Cond   = sync.Cond
)

func NewCond(l Locker) *Cond                                   { return sync.NewCond(l) }
func OnceFunc(f func()) func()                                 { return sync.OnceFunc(f) }
func OnceValue[T any](f func() T) func() T                     { return sync.OnceValue(f) }
func OnceValues[T1, T2 any](f func() (T1, T2)) func() (T1, T2) { return sync.OnceValues(f) }

// Mutex is a simulated sync.Mutex.
type Mutex struct {
	real   sync.Mutex
	locked bool
}

func (m *Mutex) Lock() {
	if !simrt.YieldCond("Mutex.Lock", func() bool { return !m.locked }, func() { m.locked = true }) {
		m.real.Lock()
		return
	}
	simrt.LockAcquired(m, true)
}

func (m *Mutex) TryLock() bool {
	if !simrt.Active() {
		return m.real.TryLock()
	}
	ok := false
	simrt.YieldCond("Mutex.TryLock", nil, func() {
		if !m.locked {
			m.locked = true
			ok = true
		}
	})
	if ok {
		simrt.LockAcquired(m, true)
	}
	return ok
}

func (m *Mutex) Unlock() {
	if !simrt.Active() {
		m.real.Unlock()
		return
	}
	bad := false
	simrt.LockReleased(m, true)
	simrt.Locked(func() {
		if !m.locked {
			bad = true
		}
		m.locked = false
	})
	if bad {
		panic("sync: unlock of unlocked mutex")
	}
	simrt.Poke()
}

// RWMutex is a simulated sync.RWMutex. Which of several waiters gets the lock
// is the scheduler's choice, with the one rule sync.RWMutex documents: "a
// blocked Lock call excludes new readers from acquiring the lock" - a reader
// that arrives while a writer is waiting waits for that writer (so a goroutine
// that read-locks twice deadlocks when a writer arrives in between, as it does
// for real).
type RWMutex struct {
	real    sync.RWMutex
	writer  bool
	readers int
	pending int // writers that have called Lock and not yet got it
}

func (m *RWMutex) Lock() {
	if !simrt.Active() {
		m.real.Lock()
		return
	}
	simrt.Locked(func() { m.pending++ })
	if !simrt.YieldCond("RWMutex.Lock", func() bool { return !m.writer && m.readers == 0 }, func() { m.writer = true; m.pending-- }) {
		simrt.Locked(func() { m.pending-- })
		m.real.Lock()
		return
	}
	simrt.LockAcquired(m, true)
}

func (m *RWMutex) Unlock() {
	if !simrt.Active() {
		m.real.Unlock()
		return
	}
	bad := false
	simrt.LockReleased(m, true)
	simrt.Locked(func() {
		if !m.writer {
			bad = true
		}
		m.writer = false
	})
	if bad {
		panic("sync: Unlock of unlocked RWMutex")
	}
	simrt.Poke()
}

func (m *RWMutex) RLock() {
	if !simrt.YieldCond("RWMutex.RLock", func() bool { return !m.writer && m.pending == 0 }, func() { m.readers++ }) {
		m.real.RLock()
		return
	}
	simrt.LockAcquired(m, false)
}

func (m *RWMutex) RUnlock() {
	if !simrt.Active() {
		m.real.RUnlock()
		return
	}
	bad := false
	simrt.LockReleased(m, false)
	simrt.Locked(func() {
		if m.readers <= 0 {
			bad = true
		} else {
			m.readers--
		}
	})
	if bad {
		panic("sync: RUnlock of unlocked RWMutex")
	}
	simrt.Poke()
}

func (m *RWMutex) TryLock() bool {
	if !simrt.Active() {
		return m.real.TryLock()
	}
	ok := false
	simrt.YieldCond("RWMutex.TryLock", nil, func() {
		if !m.writer && m.readers == 0 {
			m.writer = true
			ok = true
		}
	})
	if ok {
		simrt.LockAcquired(m, true)
	}
	return ok
}

func (m *RWMutex) TryRLock() bool {
	if !simrt.Active() {
		return m.real.TryRLock()
	}
	ok := false
	simrt.YieldCond("RWMutex.TryRLock", nil, func() {
		if !m.writer && m.pending == 0 {
			m.readers++
			ok = true
		}
	})
	if ok {
		simrt.LockAcquired(m, false)
	}
	return ok
}

type rlocker RWMutex

func (r *rlocker) Lock()   { (*RWMutex)(r).RLock() }
func (r *rlocker) Unlock() { (*RWMutex)(r).RUnlock() }

func (m *RWMutex) RLocker() Locker { return (*rlocker)(m) }

// WaitGroup is a simulated sync.WaitGroup. Add/Done and Wait are scheduling
// points; Wait is enabled when the counter is zero.
type WaitGroup struct {
	real sync.WaitGroup
	n    int
}

func (wg *WaitGroup) Add(delta int) {
	neg := false
	if !simrt.YieldCond("WaitGroup.Add", nil, func() {
		wg.n += delta
		if wg.n < 0 {
			neg = true
		}
	}) {
		wg.real.Add(delta)
		return
	}
	if neg {
		panic("sync: negative WaitGroup counter")
	}
}

func (wg *WaitGroup) Done() { wg.Add(-1) }

func (wg *WaitGroup) Wait() {
	if !simrt.YieldCond("WaitGroup.Wait", func() bool { return wg.n <= 0 }, nil) {
		wg.real.Wait()
	}
}

func (wg *WaitGroup) Go(f func()) {
	wg.Add(1)
	simrt.Go("WaitGroup.Go", func() {
		defer wg.Done()
		f()
	})
}

// Once is a simulated sync.Once built on the simulated Mutex.
type Once struct {
	m    Mutex
	done bool
}

func (o *Once) Do(f func()) {
	o.m.Lock()
	defer o.m.Unlock()
	if !o.done {
		defer func() { o.done = true }()
		f()
	}
}
