module verif.local/verif

go 1.23
