package flowsim

import (
	"fmt"
	"testing"
	"time"

	"verif.local/engines/eng"
	"verif.local/simrt"
)

// twins runs differential companions of the scenario under the same schedule
// (C19: canonical construction; C10: flattened flow). Only meaningful because
// runs are deterministic: same choices => same log unless behaviour differs.
func (c *octx) twins(t *testing.T, cfg simrt.Config) *eng.Violation {
	switch c.prop {
	case "C19":
		if v := c.getters(); v != nil {
			return v
		}
		tw := canonical(c.sc)
		res, _ := execScn(t, tw, simrt.Config{Seed: cfg.Seed, Replay: true, Tape: c.res.Tape})
		return c.sameLog("styles-differ", "constructor options only, last values", res)
	case "C10":
		flat := flatten(c.sc)
		if flat == nil {
			return nil
		}
		c.out.Probes["flattened_twin_compared"]++
		_, fobs := execScn(t, flat, simrt.Config{Seed: cfg.Seed, Replay: true, Tape: c.res.Tape})
		return c.sameCallbacks("nested-differs-from-flat", "the equivalent flattened flow", fobs)
	}
	return nil
}

func (c *octx) sameLog(clause, what string, other *simrt.Result) *eng.Violation {
	a, b := c.res.Events, other.Events
	for i := 0; i < len(a) || i < len(b); i++ {
		var x, y simrt.Event
		if i < len(a) {
			x = a[i]
		}
		if i < len(b) {
			y = b[i]
		}
		if x != y {
			return c.viol(clause, "same seed, same schedule: event %d is %+v as configured, but %+v with %s", i+1, x, y, what)
		}
	}
	return nil
}

// sameCallbacks compares what the user's callbacks saw (order in the main
// lane, per-item traces, arguments), the outcome of every run and the store;
// scheduling details (task ids, sequence numbers) are left out because the
// nested arrangement has extra scheduling points of its own.
func (c *octx) sameCallbacks(clause, what string, other *Obs) *eng.Violation {
	if len(other.Runs) != len(c.obs.Runs) {
		return c.viol(clause, "%d runs here, %d with %s", len(c.obs.Runs), len(other.Runs), what)
	}
	for i, or := range c.obs.Runs {
		tr := other.Runs[i]
		if d := diffSeq(projObs(or.Main, projFull, false), projObs(tr.Main, projFull, false)); d != "" {
			return c.viol(clause, "run %d: callbacks differ from %s (shown as 'the model'): %s", i, what, d)
		}
		for k, lane := range or.Lanes {
			if d := diffSeq(projObs(lane, projFull, false), projObs(tr.Lanes[k], projFull, false)); d != "" {
				return c.viol(clause, "run %d, batch item %+v: callbacks differ from %s: %s", i, k, what, d)
			}
		}
		if or.End == nil || tr.End == nil || or.End.S1 != tr.End.S1 || or.End.S2 != tr.End.S2 {
			return c.viol(clause, "run %d: outcome differs from %s: %+v vs %+v", i, what, or.End, tr.End)
		}
	}
	if c.obs.Store != other.Store {
		return c.viol(clause, "store contents {%s} differ from %s {%s}", c.obs.Store, what, other.Store)
	}
	return nil
}

// getters: last setting wins, else the documented default.
func (c *octx) getters() *eng.Violation {
	for id, n := range c.sc.Nodes {
		got, ok := c.obs.Cfg[id]
		if !ok {
			continue
		}
		cfg := n.config()
		eh := "continue"
		if cfg.Stop {
			eh = "stop"
		}
		want := fmt.Sprintf("retries=%d wait=%s conc=%d errh=%s", cfg.Retries, time.Duration(cfg.WaitMs)*time.Millisecond, cfg.Conc, eh)
		if got != want {
			return c.viol("getters", "node %d configured by %+v reports %q, last-setting-wins / defaults require %q", id, n.Settings, got, want)
		}
	}
	return nil
}
