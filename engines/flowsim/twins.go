package flowsim

import (
	"fmt"
	"testing"
	"time"

	"verif.local/engines/eng"
	"verif.local/simrt"
)

// twins runs differential companions of the scenario under the same schedule
// (C19: canonical construction; C10: flattened flow). Only meaningful because
// runs are deterministic: same choices => same log unless behaviour differs.
func (c *octx) twins(t *testing.T, cfg simrt.Config) *eng.Violation {
	switch c.prop {
	case "C19":
		if v := c.getters(); v != nil {
			return v
		}
		tw := canonical(c.sc)
		res, _ := execScn(t, tw, simrt.Config{Seed: cfg.Seed, Replay: true, Tape: c.res.Tape})
		return c.sameLog("styles-differ", "constructor options only, last values", res)
	case "C10":
		flat := flatten(c.sc)
		if flat == nil {
			return nil
		}
		c.out.Probes["flattened_twin_compared"]++
		res, _ := execScn(t, flat, simrt.Config{Seed: cfg.Seed, Replay: true, Tape: c.res.Tape})
		return c.sameLog("nested-differs-from-flat", "the equivalent flattened flow", res)
	}
	return nil
}

func (c *octx) sameLog(clause, what string, other *simrt.Result) *eng.Violation {
	a, b := c.res.Events, other.Events
	for i := 0; i < len(a) || i < len(b); i++ {
		var x, y simrt.Event
		if i < len(a) {
			x = a[i]
		}
		if i < len(b) {
			y = b[i]
		}
		if x != y {
			return c.viol(clause, "same seed, same schedule: event %d is %+v as configured, but %+v with %s", i+1, x, y, what)
		}
	}
	return nil
}

// getters: last setting wins, else the documented default.
func (c *octx) getters() *eng.Violation {
	for id, n := range c.sc.Nodes {
		got, ok := c.obs.Cfg[id]
		if !ok {
			continue
		}
		cfg := n.config()
		eh := "continue"
		if cfg.Stop {
			eh = "stop"
		}
		want := fmt.Sprintf("retries=%d wait=%s conc=%d errh=%s", cfg.Retries, time.Duration(cfg.WaitMs)*time.Millisecond, cfg.Conc, eh)
		if got != want {
			return c.viol("getters", "node %d configured by %+v reports %q, last-setting-wins / defaults require %q", id, n.Settings, got, want)
		}
	}
	return nil
}

func corpus(prop, tier string) []any { return nil }
