package flowsim

import (
	"fmt"
	"testing"
	"time"

	"verif.local/engines/eng"
	"verif.local/simrt"
)

// twins runs differential companions of the scenario under the same schedule
// (C19: canonical construction; C10: flattened flow). Only meaningful because
// runs are deterministic: same choices => same log unless behaviour differs.
func (c *octx) twins(t *testing.T, cfg simrt.Config) *eng.Violation {
	switch c.prop {
	case "C19":
		if v := c.getters(); v != nil {
			return v
		}
		tw := canonical(c.sc)
		_, tobs := execScn(t, tw, simrt.Config{Seed: cfg.Seed, Replay: true, Tape: c.res.Tape})
		if v := c.sameCallbacks("styles-differ", "the same node configured by constructor options only (last values)", tobs); v != nil {
			return v
		}
		for k, got := range c.obs.Cfg {
			if tobs.Cfg[k] != got {
				return c.viol("styles-differ", "node %d reports configuration %q, its canonically configured twin %q", k[0], got, tobs.Cfg[k])
			}
		}
		return nil
	case "C10":
		if hasNested(c.sc) {
			return nil // a run nested inside a callback names a flow object: no flattened twin
		}
		for _, n := range c.sc.Nodes {
			if n.Wrap != "" {
				return nil // a wrapper type adds lifecycle steps of its own: judged against the model only
			}
		}
		flat := flatten(c.sc)
		if flat == nil {
			return nil
		}
		c.out.Probes["flattened_twin_compared"]++
		fres, fobs := execScn(t, flat, simrt.Config{Seed: cfg.Seed, Replay: true, Tape: c.res.Tape})
		if v := c.sameCallbacks("nested-differs-from-flat", "the equivalent flattened flow", fobs); v != nil {
			return v
		}
		// a context handed to a callback must live as long in the nested arrangement
		// as it does in the flat one (something created under it by one node is
		// used by a later node)
		died := func(evs []simrt.Event) (n int, first simrt.Event) {
			for _, e := range evs {
				if e.Kind == "ctx_died_early" {
					if n == 0 {
						first = e
					}
					n++
				}
			}
			return
		}
		dn, fe := died(c.res.Events)
		if df, _ := died(fres.Events); dn > df {
			return c.viol("context-died-early", "nested: the context handed to a callback of node %d was already done when node %d ran although the run's context was alive (%d such cases); in the equivalent flattened flow this happens %d times", fe.N, fe.V, dn, df)
		}
		return nil
	}
	return nil
}

func (c *octx) sameLog(clause, what string, other *simrt.Result) *eng.Violation {
	a, b := c.res.Events, other.Events
	for i := 0; i < len(a) || i < len(b); i++ {
		var x, y simrt.Event
		if i < len(a) {
			x = a[i]
		}
		if i < len(b) {
			y = b[i]
		}
		if x != y {
			return c.viol(clause, "same seed, same schedule: event %d is %+v as configured, but %+v with %s", i+1, x, y, what)
		}
	}
	return nil
}

// sameCallbacks compares what the user's callbacks saw (order in the main
// lane, per-item traces, arguments), the outcome of every run and the store;
// scheduling details (task ids, sequence numbers) are left out because the
// nested arrangement has extra scheduling points of its own.
func (c *octx) sameCallbacks(clause, what string, other *Obs) *eng.Violation {
	if len(other.Runs) != len(c.obs.Runs) {
		return c.viol(clause, "%d runs here, %d with %s", len(c.obs.Runs), len(other.Runs), what)
	}
	// a concurrent stop-mode batch legitimately depends on the schedule (which
	// items were stopped), and the two runs do not share scheduling points
	loose := func(n, run int) bool {
		if n < 0 || n >= len(c.sc.Nodes) || c.sc.Nodes[n].Kind != "batch" {
			return false
		}
		cfg := c.sc.Nodes[n].configRun(run)
		return cfg.Stop && cfg.Conc > 0
	}
	for i, or := range c.obs.Runs {
		tr := other.Runs[i]
		p := func(kind string, n, v, a, ii int, s1, s2, s3 string) (string, bool) {
			if kind == "post_start" && loose(n, i) {
				s3 = "(schedule-dependent)"
			}
			return projFull(kind, n, v, a, ii, s1, s2, s3)
		}
		if d := diffSeq(projObs(or.Main, p, false), projObs(tr.Main, p, false)); d != "" {
			return c.viol(clause, "run %d: callbacks differ from %s (shown as 'the model'): %s", i, what, d)
		}
		for k, lane := range or.Lanes {
			if loose(k.N, i) {
				continue
			}
			if d := diffSeq(projObs(lane, projFull, false), projObs(tr.Lanes[k], projFull, false)); d != "" {
				return c.viol(clause, "run %d, batch item %+v: callbacks differ from %s: %s", i, k, what, d)
			}
		}
		if or.End == nil || tr.End == nil || or.End.S1 != tr.End.S1 || or.End.S2 != tr.End.S2 {
			return c.viol(clause, "run %d: outcome differs from %s: %+v vs %+v", i, what, or.End, tr.End)
		}
	}
	if c.obs.Store != other.Store {
		return c.viol(clause, "store contents {%s} differ from %s {%s}", c.obs.Store, what, other.Store)
	}
	return nil
}

// getters: last setting wins, else the documented default.
func (c *octx) getters() *eng.Violation {
	for id, n := range c.sc.Nodes {
		for phase := 0; phase <= 1; phase++ {
			got, ok := c.obs.Cfg[[2]int{id, phase}]
			if !ok {
				continue
			}
			cfg := n.configRun(phase)
			eh := "continue"
			if cfg.Stop {
				eh = "stop"
			}
			want := fmt.Sprintf("retries=%d wait=%s conc=%d errh=%s", cfg.Retries, time.Duration(cfg.WaitMs)*time.Millisecond, cfg.Conc, eh)
			if got != want {
				return c.viol("getters", "node %d configured by %+v (then, after the first run, %+v) reports %q in phase %d, last-setting-wins / defaults require %q", id, n.Settings, n.Reconf, got, phase, want)
			}
		}
	}
	return nil
}
