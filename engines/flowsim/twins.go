package flowsim

import (
	"testing"

	"verif.local/engines/eng"
	"verif.local/simrt"
)

// twins runs differential companions of the scenario under the same seed
// (C10 flattened flow, C17 other style, C19 canonical construction).
func (c *octx) twins(t *testing.T, cfg simrt.Config) *eng.Violation {
	return nil
}

func corpus(prop, tier string) []any { return nil }
