package flowsim

import (
	"fmt"
	"strings"

	"verif.local/engines/eng"
	"verif.local/simrt"
)

type octx struct {
	prop string
	sc   *Scn
	mod  *Model
	obs  *Obs
	res  *simrt.Result
	out  *eng.Outcome
}

func (c *octx) viol(clause, format string, a ...any) *eng.Violation {
	return &eng.Violation{Prop: c.prop, Class: c.prop + "." + clause, Msg: fmt.Sprintf(format, a...)}
}

func (c *octx) boosted() bool {
	for _, n := range c.sc.Nodes {
		for _, vs := range n.Visits {
			for _, it := range vs.Items {
				for _, eo := range it.Exec {
					if eo.Boost {
						return true
					}
				}
			}
		}
	}
	return false
}

// terminated: the run neither panicked nor hung.
func (c *octx) terminated() *eng.Violation {
	if len(c.res.Panics) > 0 {
		return c.viol("panic", "a task panicked: %s", c.res.Panics[0])
	}
	if c.res.Deadlock && c.prop == "C08" {
		return c.viol("lower", "mutually dependent executions (barrier of min(c,n) items) made no progress: fewer than c items run simultaneously; %v", c.res.Blocked)
	}
	if c.res.StepLimit {
		return c.viol("hang", "the run did not end within %d scheduler steps (the model's path has at most %d node visits): it keeps executing; tasks: %v", c.res.Steps, visitCap, c.res.Blocked)
	}
	if c.res.Deadlock {
		return c.viol("hang", "the run made no progress (no enabled task, no pending timer): %v", c.res.Blocked)
	}
	if len(c.obs.Runs) != len(c.mod.Runs) {
		return c.viol("hang", "%d runs started, %d expected", len(c.obs.Runs), len(c.mod.Runs))
	}
	for i, r := range c.obs.Runs {
		if r.End == nil {
			return c.viol("hang", "run %d never returned", i)
		}
	}
	return nil
}

// mainEq compares the projected main lane of every run with the model.
func (c *octx) mainEq(clause string, p proj, withT bool) *eng.Violation {
	for i, mr := range c.mod.Runs {
		got := projObs(c.obs.Runs[i].Main, p, withT)
		want := projModel(mr.Main, p, withT)
		if d := diffSeq(got, want); d != "" {
			return c.viol(clause, "run %d: %s", i, d)
		}
	}
	return nil
}

// lanesEq compares every batch item lane with the model (continue mode /
// sequential stop mode: exact; concurrent stop mode: all or nothing).
func (c *octx) lanesEq(clause string, p proj, withT bool) *eng.Violation {
	for i, mr := range c.mod.Runs {
		or := c.obs.Runs[i]
		known := map[laneKey]bool{}
		for _, mb := range mr.Batches {
			for ii, mi := range mb.Items {
				k := laneKey{mb.N, mb.V, ii}
				known[k] = true
				got := projObs(or.Lanes[k], p, withT)
				want := projModel(mi.Lane, p, withT)
				if mi.Skipped {
					want = nil
				}
				if mi.Optional && len(got) == 0 {
					continue
				}
				if d := diffSeq(got, want); d != "" {
					return c.viol(clause, "run %d, batch node %d visit %d, item %d: %s", i, mb.N, mb.V, ii, d)
				}
			}
		}
		for k, evs := range or.Lanes {
			if !known[k] && len(evs) > 0 {
				return c.viol(clause, "run %d: callback for something that is not an item of that batch visit: %+v", i, evs[0])
			}
		}
	}
	return nil
}

func stripTilde(s string) string { return strings.TrimPrefix(s, "~") }

// outcome: (action, nil) xor ("", err); the error matches the model's.
func (c *octx) outcome(clause string, checkAction, checkErrIdentity bool) *eng.Violation {
	for i, mr := range c.mod.Runs {
		e := c.obs.Runs[i].End
		gotErr := e.S2 != "nil"
		if (mr.Err != "") != gotErr {
			return c.viol(clause, "run %d returned error %q, the model requires error %q", i, e.S2, mr.Err)
		}
		if gotErr && c.sc.Via != "flowrun" && e.S1 != "" {
			return c.viol(clause, "run %d returned both an action %q and an error %q", i, e.S1, e.S2)
		}
		if !gotErr && checkAction {
			if e.S1 == "" {
				return c.viol(clause, "run %d succeeded with the empty action", i)
			}
			if e.S1 != mr.Action {
				return c.viol(clause, "run %d returned action %q, the model requires %q", i, e.S1, mr.Action)
			}
		}
		if gotErr && checkErrIdentity {
			if mr.Err == "ctx" {
				if e.S3 != "matches-ctx" {
					return c.viol(clause, "run %d: error %q does not match the context's error", i, e.S2)
				}
			} else if stripTilde(e.S2) != mr.Err {
				return c.viol(clause, "run %d: returned error %q does not match (errors.Is/As) the callback error %q that ended the run", i, e.S2, mr.Err)
			}
		}
	}
	return nil
}

// nothingAfterReturn: no user callback of a run is invoked (or still running)
// after that run has returned.
func (c *octx) nothingAfterReturn(clause string) *eng.Violation {
	for i, or := range c.obs.Runs {
		if or.End == nil {
			continue
		}
		for _, e := range or.All {
			if isCallback(e.Kind) && e.Seq > or.End.Seq {
				return c.viol(clause, "run %d had already returned (seq %d) when %s of node %d (item %d) was invoked at seq %d", i, or.End.Seq, e.Kind, e.N, e.I-1, e.Seq)
			}
		}
	}
	return nil
}

// failStop: after the callback whose error ended the run returned, no further
// callback of that run is invoked.
func (c *octx) failStop(clause string) *eng.Violation {
	for i, mr := range c.mod.Runs {
		if mr.FailEnd < 0 {
			continue
		}
		f := mr.Main[mr.FailEnd]
		or := c.obs.Runs[i]
		idx := -1
		for j, e := range or.All {
			if e.Kind == f.Kind && e.N == f.N && e.V == f.V && e.A == f.A && e.I == 0 && e.S1 == f.S1 {
				idx = j
				break
			}
		}
		if idx < 0 {
			return c.viol(clause, "run %d: the failing callback %s n%d v%d was never observed", i, f.Kind, f.N, f.V)
		}
		for _, e := range or.All[idx+1:] {
			if isCallback(e.Kind) {
				return c.viol(clause, "run %d: %s of node %d was invoked after the failure of %s n%d v%d had ended the run", i, e.Kind, e.N, f.Kind, f.N, f.V)
			}
		}
	}
	return nil
}

// onlyModelVisits: no callback for a node visit that is not on the model path.
func (c *octx) onlyModelVisits(clause string) *eng.Violation {
	for i, mr := range c.mod.Runs {
		on := map[[2]int]bool{}
		for _, v := range mr.Visits {
			on[v] = true
		}
		for _, e := range c.obs.Runs[i].All {
			if isCallback(e.Kind) && !on[[2]int{e.N, e.V}] {
				return c.viol(clause, "run %d: %s of node %d (visit %d) is not on the path the transition table determines", i, e.Kind, e.N, e.V)
			}
		}
	}
	return nil
}

// c18Cancelled: the run was cancelled from inside one of its callbacks. It may
// fail with the context's error; if it reports success the action is non-empty,
// and a flow that reports success has followed the default connection.
func (c *octx) c18Cancelled() *eng.Violation {
	sc := c.sc
	for i, or := range c.obs.Runs {
		e := or.End
		if e == nil || e.S2 != "nil" {
			continue
		}
		if e.S1 == "" {
			return c.viol("action", "run %d succeeded with the empty action (the context had been cancelled meanwhile; a success still reports the default action)", i)
		}
		root := sc.Nodes[sc.Root]
		if root.Kind != "flow" {
			continue
		}
		w := -1
		for _, cn := range root.Conns {
			if cn.From == root.Start && cn.Action == "default" {
				w = cn.To
			}
		}
		postAction, posted := "", false
		for _, ev := range or.All {
			if ev.Kind == "post_end" && ev.I == 0 && strings.HasPrefix(ev.S1, "ok:") {
				postAction, posted = strings.TrimPrefix(ev.S1, "ok:"), true
				break
			}
		}
		if w < 0 || !posted || normAction(postAction) != "default" {
			continue
		}
		seen := false
		for _, ev := range or.All {
			if ev.N == w && isCallback(ev.Kind) {
				seen = true
			}
		}
		if !seen {
			return c.viol("default-connection", "run %d: the flow reported success although its first step finished with the default action and the connection on the default action (to node %d) was never followed", i, w)
		}
	}
	return nil
}

// prepOnce: a batch node's prep runs exactly once per visit.
func (c *octx) prepOnce() *eng.Violation {
	for _, bv := range c.batchViews() {
		n := 0
		for _, e := range c.obs.Runs[bv.run].All {
			if e.Kind == "prep_start" && e.N == bv.mb.N && e.V == bv.mb.V {
				n++
			}
		}
		// (a node the cancelled run never reached has no phase at all)
		if n > 1 || (n == 0 && len(bv.evs)+len(bv.post) > 0) {
			return c.viol("prep-count", "batch node %d visit %d: prep was called %d times", bv.mb.N, bv.mb.V, n)
		}
	}
	return nil
}

// nestedInFlight: the upper bound for a batch that an item of another batch runs.
func (c *octx) nestedInFlight(clause string) *eng.Violation {
	for _, n := range c.sc.Nodes {
		for _, vs := range n.Visits {
			for _, it := range vs.Items {
				for _, o := range it.Exec {
					if o.Nested == 0 {
						continue
					}
					in := c.sc.Nodes[o.Nested-1]
					limit := max(in.config().Conc, 1)
					cur := 0
					for _, e := range c.res.Events {
						if e.N != in.ID || e.I == 0 {
							continue
						}
						switch e.Kind {
						case "exec_start", "fb_start":
							if cur++; cur > limit {
								return c.viol(clause, "nested batch node %d (concurrency %d): %d item executions in flight at seq %d", in.ID, in.config().Conc, cur, e.Seq)
							}
						case "exec_end", "fb_end":
							cur--
						}
					}
				}
			}
		}
	}
	return nil
}

// panicRule: an exec that panicked is never presented to post as a success.
func (c *octx) panicRule() *eng.Violation {
	for _, n := range c.sc.Nodes {
		if n.Kind != "batch" {
			continue
		}
		for ii, it := range n.visit(0).Items {
			if len(it.Exec) == 0 || !it.Exec[0].Panic {
				continue
			}
			for _, e := range c.res.Events {
				if e.Kind == "post_start" && e.N == n.ID {
					got := splitList(e.S3)
					if ii < len(got) && !strings.HasPrefix(got[ii], "ER(") {
						return c.viol("panicked-item-reported-success", "batch node %d: the exec of item %d panicked, yet post received %q for it (IsError()==false)", n.ID, ii, got[ii])
					}
				}
			}
		}
	}
	return nil
}

func hasNested(sc *Scn) bool {
	for _, n := range sc.Nodes {
		for _, vs := range n.Visits {
			for _, o := range vs.Exec {
				if o.Nested > 0 {
					return true
				}
			}
			for _, it := range vs.Items {
				for _, o := range it.Exec {
					if o.Nested > 0 {
						return true
					}
				}
			}
		}
	}
	return false
}

func hasPanic(sc *Scn) bool {
	for _, n := range sc.Nodes {
		for _, vs := range n.Visits {
			for _, it := range vs.Items {
				for _, o := range it.Exec {
					if o.Panic {
						return true
					}
				}
			}
		}
	}
	return false
}

func hasBatch(sc *Scn) bool {
	for _, n := range sc.Nodes {
		if n.Kind == "batch" {
			return true
		}
	}
	return false
}

func first(vs ...*eng.Violation) *eng.Violation {
	for _, v := range vs {
		if v != nil {
			return v
		}
	}
	return nil
}

func oracle(c *octx) *eng.Violation {
	if v := c.terminated(); v != nil {
		return v
	}
	for _, e := range c.res.Events {
		if e.Kind == "decoy_called" {
			return c.viol("overridden-function-called", "node %d: a %s function that had been replaced by a later setting was called (last setting wins)", e.N, e.S1)
		}
	}
	switch c.prop {
	case "C01":
		if hasBatch(c.sc) {
			return first(c.prepOnce(), c.postAfterItems(), c.slotsHonest(), c.nothingAfterReturn("callback-after-return"))
		}
		return first(c.mainEq("trace", projC01, false), c.outcome("result", true, false))
	case "C02":
		return first(c.mainEq("attempts", projC02, false), c.lanesEq("item-attempts", projC02, false), c.slots("slot"))
	case "C03":
		return first(c.mainEq("path", projVisits, false), c.onlyModelVisits("off-path"), c.outcome("result", false, false))
	case "C04":
		return first(c.outcome("error", false, true), c.failStop("fail-stop"), c.nothingAfterReturn("callback-after-return"))
	case "C05":
		return c.cancelRules()
	case "C19":
		if nonPositiveRetries(c.sc) {
			// what a retry count <= 0 means is not stated: such a scenario is judged by
			// last-setting-wins on the getters and against its canonically configured
			// twin only (twins), both of which run the real code
			c.out.Probes["nonpositive_retries_judged_by_twin_only"]++
			return nil
		}
		return first(c.mainEq("behaviour", projFull, false), c.lanesEq("item-behaviour", projFull, false), c.slots("slot"), c.inFlight("concurrency"))
	case "C20":
		return c.waits()
	case "C10":
		return first(c.mainEq("visit-order", projFull, false), c.lanesEq("item-trace", projFull, false), c.outcome("outcome", true, true), c.storeEq())
	case "C11":
		return c.batchCancel()
	case "C17":
		if c.sc.Ctx.Kind == "cancel" && hasBatch(c.sc) {
			return first(c.postAfterItems(), c.slotsHonest())
		}
		return first(c.mainEq("payload", projC17, false), c.lanesEq("item-payload", projC17, false), c.slots("slot"))
	case "C18":
		if c.sc.Ctx.Kind == "cancel" {
			return c.c18Cancelled()
		}
		return first(c.outcome("action", true, false), c.mainEq("default-connection", projVisits, false))
	case "C06":
		if c.sc.Ctx.Kind == "cancel" || c.sc.Ctx.Kind == "deadline" {
			// cancelled meanwhile: post (if called at all) still comes after every
			// item event, once, and a slot is the item's real outcome or an error
			return first(c.postAfterItems(), c.slotsHonest())
		}
		return first(c.slots("slot"), c.mainEq("post-once", projC06, false), c.nothingAfterReturn("callback-after-return"))
	case "C07":
		return first(c.lanesEq("item-trace", projFull, false), c.slots("slot"))
	case "C08":
		// (an execution that is still going on after the run has returned escapes
		// every bound: the next run's executions come on top of it)
		return first(c.inFlight("upper"), c.nestedInFlight("upper"), c.postAfterItems(), c.nothingAfterReturn("execution-after-return"))
	case "C09":
		if c.sc.Ctx.Kind == "cancel" || c.sc.Ctx.Kind == "deadline" {
			return first(c.postAfterItems(), c.slotsHonest())
		}
		return first(c.stopOnError(c.boosted()), c.slotsHonest())
	}
	return c.viol("internal", "no oracle for %s", c.prop)
}

// slots compares what the batch post received, slot by slot, with the model.
func (c *octx) slots(clause string) *eng.Violation {
	for i, mr := range c.mod.Runs {
		or := c.obs.Runs[i]
		for _, mb := range mr.Batches {
			if mb.PostIdx < 0 {
				continue
			}
			var posts []simrt.Event
			for _, e := range or.Main {
				if e.Kind == "post_start" && e.N == mb.N && e.V == mb.V {
					posts = append(posts, e)
				}
			}
			if len(posts) != 1 {
				return c.viol(clause, "run %d: batch node %d visit %d: post was called %d times, exactly once is required", i, mb.N, mb.V, len(posts))
			}
			p := posts[0]
			if p.S2 != mb.ItemsDesc {
				return c.viol(clause, "run %d: batch node %d: post received items %s, prep produced %s", i, mb.N, p.S2, mb.ItemsDesc)
			}
			got := splitList(p.S3)
			if len(got) != len(mb.Items) {
				return c.viol(clause, "run %d: batch node %d: post received %d results for %d items (%s)", i, mb.N, len(got), len(mb.Items), p.S3)
			}
			for ii, mi := range mb.Items {
				ran := len(or.Lanes[laneKey{mb.N, mb.V, ii}]) > 0
				want := mi.Slot
				switch {
				case mi.Skipped, mi.Optional && !ran:
					if !strings.HasPrefix(got[ii], "ER(") {
						return c.viol("unexecuted-slot-reported-success", "run %d: batch node %d: item %d was never executed but its slot reads %q (not an error)", i, mb.N, ii, got[ii])
					}
					continue
				}
				if got[ii] != want {
					return c.viol(clause, "run %d: batch node %d: slot %d holds %q, the outcome of item %d is %q", i, mb.N, ii, got[ii], ii, want)
				}
			}
			// post only after every item event
			for k, evs := range or.Lanes {
				if k.N == mb.N && k.V == mb.V && len(evs) > 0 && evs[len(evs)-1].Seq > p.Seq {
					return c.viol("post-before-settled", "run %d: batch node %d: post started at seq %d while item %d was still being processed (seq %d)", i, mb.N, p.Seq, k.I, evs[len(evs)-1].Seq)
				}
			}
		}
	}
	return nil
}

func splitList(s string) []string {
	s = strings.TrimSpace(s)
	if len(s) < 2 || s[0] != '[' {
		return []string{s}
	}
	s = s[1 : len(s)-1]
	if s == "" {
		return nil
	}
	return strings.Fields(s)
}

// ---- batch oracles -------------------------------------------------------------

type batchView struct {
	run  int
	mb   *MBatch
	evs  []simrt.Event // item events of this batch visit, log order
	post []simrt.Event
}

func (c *octx) batchViews() []*batchView {
	var out []*batchView
	for i, mr := range c.mod.Runs {
		or := c.obs.Runs[i]
		for _, mb := range mr.Batches {
			bv := &batchView{run: i, mb: mb}
			for _, e := range or.All {
				if e.N == mb.N && e.V == mb.V && isCallback(e.Kind) {
					if e.I > 0 {
						bv.evs = append(bv.evs, e)
					} else if e.Kind == "post_start" {
						bv.post = append(bv.post, e)
					}
				}
			}
			out = append(out, bv)
		}
	}
	return out
}

// inFlight: C08 upper bound and sequential order.
func (c *octx) inFlight(clause string) *eng.Violation {
	for _, bv := range c.batchViews() {
		limit := bv.mb.Conc
		if limit < 1 {
			limit = 1
		}
		n, maxN := 0, 0
		nextItem := 0
		for _, e := range bv.evs {
			switch e.Kind {
			case "exec_start", "fb_start":
				n++
				if n > maxN {
					maxN = n
				}
				if n > limit {
					return c.viol(clause, "batch node %d (concurrency %d): %d item executions in flight at seq %d", bv.mb.N, bv.mb.Conc, n, e.Seq)
				}
				if bv.mb.Conc <= 0 {
					// one at a time in item order: everything done for item i (all its
					// attempts, its fallback) comes before anything done for item i+1
					if e.I < nextItem {
						return c.viol("sequential-order", "batch node %d (sequential): %s of item %d (attempt %d) came after item %d had been started", bv.mb.N, e.Kind, e.I-1, e.A, nextItem-1)
					}
					nextItem = e.I
				}
			case "exec_end", "fb_end":
				n--
			}
		}
	}
	return nil
}

// failPoint: the event at which item i has failed for good (model says Fails).
func failPoint(bv *batchView, item int) (simrt.Event, bool) {
	var last simrt.Event
	found := false
	for _, e := range bv.evs {
		if e.I-1 == item && (e.Kind == "exec_end" || e.Kind == "fb_end") {
			last, found = e, true
		}
	}
	return last, found
}

// stopOnError: C09 (a) and (b).
func (c *octx) stopOnError(boosted bool) *eng.Violation {
	for _, bv := range c.batchViews() {
		mb := bv.mb
		if !mb.Stop {
			continue
		}
		// the first failure in log order among items whose settled outcome is an error
		var F simrt.Event
		have := false
		for ii, mi := range mb.Items {
			if !mi.Fails || mi.Skipped {
				continue
			}
			lane := 0
			for _, e := range bv.evs {
				if e.I-1 == ii {
					lane++
				}
			}
			if lane != len(mi.Lane) {
				continue // did not run to its settled failure
			}
			if fp, ok := failPoint(bv, ii); ok && (!have || fp.Seq < F.Seq) {
				F, have = fp, true
			}
		}
		if !have {
			continue
		}
		if mb.Conc <= 1 {
			// sequential execution or one worker: items are processed in list order,
			// so an item behind the first failing one is not executed at all - not
			// later, and not earlier either
			for _, e := range bv.evs {
				if e.Kind == "exec_start" && e.I > F.I {
					return c.viol("item-behind-failing-one-executed", "batch node %d (stop on error, concurrency %d): item %d was executed (seq %d) although item %d, ahead of it in the list, failed (seq %d)", mb.N, mb.Conc, e.I-1, e.Seq, F.I-1, F.Seq)
				}
			}
		}
		newOn := map[string]int{}
		open := map[string]bool{}
		for _, e := range bv.evs {
			if e.Seq <= F.Seq {
				switch e.Kind {
				case "exec_start":
					open[e.Task] = true
				case "exec_end":
					open[e.Task] = false
				}
				continue
			}
			if e.Kind != "exec_start" || e.A != 1 {
				continue
			}
			if mb.Conc <= 1 {
				return c.viol("item-started-after-failure", "batch node %d (stop on error, concurrency %d): item %d was started at seq %d after item %d had failed at seq %d", mb.N, mb.Conc, e.I-1, e.Seq, F.I-1, F.Seq)
			}
			if e.Task == F.Task {
				return c.viol("failing-worker-continued", "batch node %d (stop on error): worker %s started item %d at seq %d after it had itself seen item %d fail at seq %d", mb.N, e.Task, e.I-1, e.Seq, F.I-1, F.Seq)
			}
			newOn[e.Task]++
			c.out.Probes["item_started_on_other_worker_after_failure"]++
			if boosted {
				if open[e.Task] {
					return c.viol("new-item-after-handled-failure", "batch node %d (stop on error, failure handled first): worker %s was inside an execution when item %d failed, yet started another item (%d) afterwards", mb.N, e.Task, F.I-1, e.I-1)
				}
				if newOn[e.Task] > 1 {
					return c.viol("new-item-after-handled-failure", "batch node %d (stop on error, failure handled first): worker %s started %d items after item %d had failed and the failure had been handled", mb.N, e.Task, newOn[e.Task], F.I-1)
				}
			}
		}
	}
	return nil
}

// postAfterItems: post is called at most once per batch visit and only after
// the last event of every item of that visit.
func (c *octx) postAfterItems() *eng.Violation {
	for _, bv := range c.batchViews() {
		if len(bv.post) > 1 {
			return c.viol("post-count", "batch node %d: post was called %d times in one run", bv.mb.N, len(bv.post))
		}
		if len(bv.post) == 0 {
			continue
		}
		p := bv.post[0]
		for _, e := range bv.evs {
			if e.Seq > p.Seq {
				return c.viol("post-before-settled", "batch node %d: post started at seq %d while item %d was still being processed (%s at seq %d)", bv.mb.N, p.Seq, e.I-1, e.Kind, e.Seq)
			}
		}
	}
	return nil
}

// slotsHonest: C09 (c) / C11: a slot is the real outcome of an executed item or an error.
func (c *octx) slotsHonest() *eng.Violation {
	for _, bv := range c.batchViews() {
		mb := bv.mb
		if mb.PostIdx < 0 || len(bv.post) == 0 {
			continue
		}
		got := splitList(bv.post[0].S3)
		if len(got) != len(mb.Items) {
			return c.viol("slot-count", "batch node %d: post received %d results for %d items", mb.N, len(got), len(mb.Items))
		}
		for ii, mi := range mb.Items {
			n, execs := 0, 0
			var lastEv simrt.Event
			for _, e := range bv.evs {
				if e.I-1 == ii {
					n++
					lastEv = e
					if e.Kind == "exec_start" {
						execs++
					}
				}
			}
			switch {
			case execs == 0: // (a fallback consulted for an item that was never attempted does not make it processed)
				if !strings.HasPrefix(got[ii], "ER(") {
					return c.viol("unexecuted-slot-reported-success", "batch node %d: item %d was never executed, yet post received %q for it (IsError()==false)", mb.N, ii, got[ii])
				}
			case n == len(mi.Lane) && !mi.Skipped:
				if got[ii] != mi.Slot {
					return c.viol("slot", "batch node %d: item %d was executed with outcome %q but its slot holds %q", mb.N, ii, mi.Slot, got[ii])
				}
			default:
				// processing was cut short (cancellation): the slot claims success only
				// if the last thing done for the item ended successfully, with that value
				if !strings.HasPrefix(got[ii], "ER(") {
					ok := strings.HasSuffix(lastEv.Kind, "_end") && strings.HasPrefix(lastEv.S1, "ok:")
					if v := strings.TrimPrefix(lastEv.S1, "ok:"); ok && v != got[ii] && v != "WR("+got[ii]+")" {
						ok = false
					}
					if !ok {
						return c.viol("slot", "batch node %d: item %d was cut short (last: %s %s) yet its slot holds the success %q", mb.N, ii, lastEv.Kind, lastEv.S1, got[ii])
					}
				}
			}
		}
	}
	return nil
}

// ---- cancellation (C05) -----------------------------------------------------------

func (c *octx) cancelRules() *eng.Violation {
	sc := c.sc
	for i, mr := range c.mod.Runs {
		or := c.obs.Runs[i]
		e := or.End
		if sc.Ctx.Kind == "precancel" || sc.Ctx.Kind == "predeadline" {
			for _, ev := range or.All {
				if isCallback(ev.Kind) {
					return c.viol("callback-on-done-context", "the context was already done when the run started, yet %s of node %d was invoked", ev.Kind, ev.N)
				}
			}
			if e.S2 == "nil" || e.S3 != "matches-ctx" {
				return c.viol("done-context-not-reported", "the context was already done when the run started; the run returned action %q error %q (%s)", e.S1, e.S2, e.S3)
			}
			continue
		}
		// the cancellation point
		after := func(ev simrt.Event) bool { return false }
		cancelled := false
		switch {
		case len(or.Cancels) > 0:
			k := or.Cancels[0].Seq
			after = func(ev simrt.Event) bool { return ev.Seq > k }
			cancelled = true
		case sc.Ctx.Kind == "deadline":
			d := sc.Ctx.DeadlineUs * 1000
			after = func(ev simrt.Event) bool { return ev.T > d }
			cancelled = e.T >= d // the deadline is off the callbacks' time grid: a run ending exactly there was ended by it
		}
		if !cancelled {
			continue
		}
		count := func(kind string) (n int) {
			for _, ev := range or.Main {
				if ev.Kind == kind {
					n++
				}
			}
			return
		}
		for _, ev := range or.Main {
			if !after(ev) {
				continue
			}
			switch ev.Kind {
			case "exec_start":
				return c.viol("attempt-after-cancel", "exec attempt %d of node %d started at seq %d, after the context had been cancelled", ev.A, ev.N, ev.Seq)
			case "prep_start":
				return c.viol("node-after-cancel", "node %d was started at seq %d, after the context had been cancelled", ev.N, ev.Seq)
			}
		}
		wantStarts := 0
		for _, me := range mr.Main {
			if me.Kind == "exec_start" || me.Kind == "prep_start" {
				wantStarts++
			}
		}
		if sc.Ctx.Kind == "deadline" && e.T == sc.Ctx.DeadlineUs*1000 {
			c.out.Probes["cancel_landed_in_wait"]++
		}
		if got := count("exec_start") + count("prep_start"); got < wantStarts {
			// cut short by the cancellation
			c.out.Probes["run_cut_short"]++
			if e.S2 == "nil" {
				return c.viol("cut-short-reported-success", "the run was cut short by the cancellation (%d of %d attempts/nodes started) but returned success (action %q)", got, wantStarts, e.S1)
			}
			if e.S3 != "matches-ctx" {
				return c.viol("cut-short-wrong-error", "the run was cut short by the cancellation but its error %q does not match the context's error", e.S2)
			}
		}
	}
	return nil
}

// ---- retry wait (C20) -----------------------------------------------------------

// waits: at least w between a failed attempt and the next, none before the
// first attempt nor after the last, per node visit and per batch item.
func (c *octx) waits() *eng.Violation {
	for i := range c.mod.Runs {
		or := c.obs.Runs[i]
		check := func(lane []simrt.Event, where string, w int64) *eng.Violation {
			for k := 1; k < len(lane); k++ {
				prev, cur := lane[k-1], lane[k]
				gap := cur.T - prev.T
				switch {
				case cur.Kind == "exec_start" && cur.A > 1 && prev.Kind == "exec_end" && prev.N == cur.N:
					if gap < w {
						return c.viol("wait-too-short", "%s: attempt %d started %dus after attempt %d ended; the configured wait is %dus", where, cur.A, gap/1000, prev.A, w/1000)
					}
				case cur.Kind == "exec_start" && cur.A == 1 && prev.Kind == "prep_end" && prev.N == cur.N:
					if gap != 0 {
						return c.viol("wait-before-first-attempt", "%s: the first attempt started %dus after prep ended", where, gap/1000)
					}
				case (cur.Kind == "post_start" || cur.Kind == "fb_start") && (prev.Kind == "exec_end" || prev.Kind == "fb_end") && prev.N == cur.N && cur.I == prev.I:
					if gap != 0 {
						return c.viol("wait-after-last-attempt", "%s: %s started %dus after the last attempt ended", where, cur.Kind, gap/1000)
					}
				}
			}
			return nil
		}
		// main lane, node by node
		for _, n := range c.sc.Nodes {
			if n.Kind == "flow" {
				continue
			}
			w := int64(n.config().WaitMs) * 1e6
			if !n.retryable() {
				w = 0
			}
			var lane []simrt.Event
			for _, e := range or.Main {
				if e.N == n.ID {
					lane = append(lane, e)
				}
			}
			if n.Kind != "batch" {
				if v := check(lane, fmt.Sprintf("node %d", n.ID), w); v != nil {
					return v
				}
			}
			for k, evs := range or.Lanes {
				if k.N == n.ID {
					if v := check(evs, fmt.Sprintf("batch node %d item %d", n.ID, k.I), w); v != nil {
						return v
					}
				}
			}
			if n.Kind == "batch" && n.config().Conc <= 0 {
				// sequential batch: the item after a settled one starts without delay
				var all []simrt.Event
				for _, e := range or.All {
					if e.N == n.ID && e.I > 0 && isCallback(e.Kind) {
						all = append(all, e)
					}
				}
				for k := 1; k < len(all); k++ {
					if all[k].Kind == "exec_start" && all[k].A == 1 && all[k].T != all[k-1].T {
						return c.viol("wait-before-first-attempt", "sequential batch node %d: item %d started %dus after the previous item was settled", n.ID, all[k].I-1, (all[k].T-all[k-1].T)/1000)
					}
				}
			}
		}
		// routing takes no time: what follows a node's post starts at once (a
		// self-loop re-runs the node without any wait)
		for k := 1; k < len(or.Main); k++ {
			if prev, cur := or.Main[k-1], or.Main[k]; prev.Kind == "post_end" && strings.HasSuffix(cur.Kind, "_start") && cur.T != prev.T {
				return c.viol("wait-before-first-attempt", "node %d: %s started %dus after the post of node %d had returned (no attempt had failed: nothing to wait for)", cur.N, cur.Kind, (cur.T-prev.T)/1000, prev.N)
			}
		}
		// cancellation inside a wait: the run ends at that very instant
		cn := c.sc.Canceller
		byDeadline := c.sc.Ctx.Kind == "deadline" && or.End.T >= c.sc.Ctx.DeadlineUs*1000
		if (cn != nil && cn.Kind == "time" && len(or.Cancels) > 0) || byDeadline {
			var at int64
			if byDeadline {
				at = c.sc.Ctx.DeadlineUs * 1000
			} else {
				at = or.Cancels[0].T
			}
			sleeps := false
			type cbKey struct {
				k          string
				n, v, a, i int
			}
			started := map[cbKey]int64{}
			for _, e := range or.All {
				switch {
				case strings.HasSuffix(e.Kind, "_start"):
					started[cbKey{strings.TrimSuffix(e.Kind, "_start"), e.N, e.V, e.A, e.I}] = e.T
				case strings.HasSuffix(e.Kind, "_end") && e.T > at:
					// something was still executing a slow callback when the cancellation
					// arrived (a callback that only started afterwards is not that)
					if t0, ok := started[cbKey{strings.TrimSuffix(e.Kind, "_end"), e.N, e.V, e.A, e.I}]; ok && t0 <= at {
						sleeps = true
					}
				}
			}
			cut := false
			for _, mr := range c.mod.Runs[i : i+1] {
				if !mr.TimeKnown || mr.EndT > at {
					cut = true
				}
			}
			if cut && !sleeps {
				c.out.Probes["cancel_landed_in_wait"]++
				if or.End.T != at {
					return c.viol("wait-not-interruptible", "the context was cancelled at %dus during a retry wait; the run returned at %dus instead of at once", at/1000, or.End.T/1000)
				}
				hasBatch := false
				for _, n := range c.sc.Nodes {
					hasBatch = hasBatch || n.Kind == "batch"
				}
				if !hasBatch {
					if or.End.S2 == "nil" || or.End.S3 != "matches-ctx" {
						return c.viol("wait-cancel-not-reported", "cancelled during a retry wait, the run returned action %q error %q (%s)", or.End.S1, or.End.S2, or.End.S3)
					}
				} else if or.End.S3 != "matches-ctx" {
					// per item: the slot of every item that was waiting carries an error matching the context's
					for _, bv := range c.batchViews() {
						if len(bv.post) == 0 {
							return c.viol("wait-cancel-not-reported", "cancelled during a retry wait: the run returned %q/%q without calling post", or.End.S1, or.End.S2)
						}
						got := splitList(bv.post[0].S3)
						for ii, mi := range bv.mb.Items {
							n := 0
							for _, e := range bv.evs {
								if e.I-1 == ii {
									n++
								}
							}
							if n > 0 && n < len(mi.Lane) && ii < len(got) && !strings.HasPrefix(got[ii], "ER(?ctx:") {
								return c.viol("wait-cancel-not-reported", "batch item %d was waiting for its next attempt when the context was cancelled; its slot reads %q, not an error matching the context's", ii, got[ii])
							}
						}
					}
				}
			}
		}
	}
	return nil
}

// ---- C10: store identity and contents ------------------------------------------

func (c *octx) storeEq() *eng.Violation {
	scratch := 0 // nested runs on a scratch store in progress (they see that store; the main-lane comparison checks which)
	for _, e := range c.res.Events {
		switch e.Kind {
		case "nested_start":
			if e.S2 == "scratch" {
				scratch++
			}
		case "nested_end":
			if e.S2 == "scratch" {
				scratch--
			}
		}
		if (e.Kind == "prep_start" || e.Kind == "post_start") && e.S1 != "S0" && scratch == 0 {
			return c.viol("store-identity", "%s of node %d received store %s, not the store given to the outermost run", e.Kind, e.N, e.S1)
		}
	}
	if c.obs.Store != c.mod.Store {
		return c.viol("store-contents", "store after the run: {%s}, the flattened interpretation gives {%s}", c.obs.Store, c.mod.Store)
	}
	return nil
}

// ---- C11: batch cancellation ----------------------------------------------------

func (c *octx) batchCancel() *eng.Violation {
	for i := range c.mod.Runs {
		or := c.obs.Runs[i]
		e := or.End
		pre := c.sc.Ctx.Kind == "precancel"
		byDeadline := c.sc.Ctx.Kind == "deadline" && e.T > c.sc.Ctx.DeadlineUs*1000
		if c.sc.Ctx.Kind == "deadline" && !byDeadline {
			// ended at or before the deadline instant: only a run that ended exactly there was cut
			byDeadline = e.T == c.sc.Ctx.DeadlineUs*1000
		}
		if !pre && !byDeadline && len(or.Cancels) == 0 {
			continue
		}
		var k simrt.Event
		switch {
		case byDeadline:
			// the cancellation instant is the deadline; no task cancelled it itself
			k = simrt.Event{Seq: -1, T: c.sc.Ctx.DeadlineUs * 1000, Task: "(deadline)"}
		case !pre:
			k = or.Cancels[0]
		}
		before := func(ev simrt.Event) bool {
			if byDeadline {
				return ev.T < k.T
			}
			return ev.Seq < k.Seq
		}
		for _, bv := range c.batchViews() {
			if bv.run != i {
				continue
			}
			mb := bv.mb
			after := map[string]int{}
			for _, ev := range bv.evs {
				if ev.Kind != "exec_start" || (!pre && before(ev)) {
					continue
				}
				after[ev.Task]++
				if w := int64(c.sc.Nodes[mb.N].config().WaitMs) * 1e6; !pre && ev.A > 1 && w > 0 {
					// a retry started after the cancellation is only an "already committed"
					// execution if its wait had fully elapsed; a task woken from its retry
					// wait by the cancellation has observed it
					for _, pe := range bv.evs {
						if pe.Kind == "exec_end" && pe.I == ev.I && pe.A == ev.A-1 && ev.T-pe.T < w {
							return c.viol("retry-after-cancel", "batch node %d: item %d was in its retry wait (%dus of %dus elapsed) when the context was cancelled, yet attempt %d was started", mb.N, ev.I-1, (ev.T-pe.T)/1000, w/1000, ev.A)
						}
					}
				}
				switch {
				case pre:
					return c.viol("item-started-after-cancel", "batch node %d: the context was cancelled before the run, yet exec of item %d attempt %d was started", mb.N, ev.I-1, ev.A)
				case ev.Task == k.Task:
					return c.viol("cancelling-worker-continued", "batch node %d: worker %s, inside whose callback the context was cancelled, started item %d attempt %d afterwards", mb.N, ev.Task, ev.I-1, ev.A)
				case after[ev.Task] > 1:
					return c.viol("items-started-after-cancel", "batch node %d (concurrency %d): task %s started %d executions after the cancellation (at most one already-committed execution per task that did not cancel itself is allowed)", mb.N, mb.Conc, ev.Task, after[ev.Task])
				}
			}
			if len(bv.post) > 1 {
				return c.viol("cancel-post-count", "batch node %d: post was called %d times in the cancelled run", mb.N, len(bv.post))
			}
			if e.S3 == "matches-ctx" {
				continue
			}
			if len(bv.post) == 1 && e.S2 != "nil" {
				// post was called (once) and failed: its error is the run's error
				own := false
				for _, pe := range c.res.Events {
					own = own || (pe.Kind == "post_end" && pe.N == mb.N && pe.S1 == "err:"+e.S2)
				}
				if own {
					continue
				}
			}
			if e.S2 != "nil" {
				return c.viol("cancel-wrong-error", "batch node %d: the cancelled run returned error %q, which does not match the context's error", mb.N, e.S2)
			}
			if len(bv.post) != 1 {
				return c.viol("cancel-post-count", "batch node %d: the cancelled run returned success but post was called %d times", mb.N, len(bv.post))
			}
		}
		// with nothing sleeping, the run ends at the cancellation instant even if a retry wait was pending
		if !pre {
			slow := false
			for _, n := range c.sc.Nodes {
				for _, vs := range n.Visits {
					for _, it := range vs.Items {
						for _, eo := range it.Exec {
							slow = slow || eo.SleepMs > 0
						}
						if it.Fb != nil {
							slow = slow || it.Fb.SleepMs > 0
						}
					}
					slow = slow || vs.Post.SleepMs > 0 || vs.Prep.SleepMs > 0
				}
			}
			if !slow && e.T != k.T {
				return c.viol("cancel-not-prompt", "the context was cancelled at %dus; with no callback consuming time the run still returned only at %dus", k.T/1000, e.T/1000)
			}
		}
	}
	return first(c.slotsHonest(), c.nothingAfterReturn("callback-after-return"))
}

// nonPositiveRetries: some node's retry count is <= 0 at some point of its configuration.
func nonPositiveRetries(sc *Scn) bool {
	for _, n := range sc.Nodes {
		for _, s := range n.Settings {
			if s.Param == "retries" && s.Val <= 0 {
				return true
			}
		}
		for _, s := range n.Reconf {
			if s.Param == "retries" && s.Val <= 0 {
				return true
			}
		}
		if n.configRun(0).Retries <= 0 || n.configRun(1).Retries <= 0 {
			return true
		}
	}
	return false
}
