package flowsim

// flatten builds the equivalent one-level flow of a nested scenario, or nil
// when the hierarchy cannot be flattened without cloning nodes (a node or an
// inner flow that is used in more than one place).
func flatten(sc *Scn) *Scn {
	root := sc.Nodes[sc.Root]
	if root.Kind != "flow" {
		return nil
	}
	for _, n := range sc.Nodes {
		for _, c := range append(append([]Conn(nil), n.Conns...), n.LateConns...) {
			if n.Kind == "flow" && c.To >= n.ID {
				return nil // a flow reachable from itself has no finite flattening
			}
		}
		if len(n.LateConns) > 0 {
			return nil // tables that change between runs are compared with the model only
		}
		for _, vs := range n.Visits {
			if vs.Post.Conn != nil || vs.Prep.Conn != nil {
				return nil // so are tables changed from inside a callback
			}
		}
	}
	// every node must be a member of at most one flow
	owner := map[int]int{}
	nested := false
	for _, f := range sc.Nodes {
		if f.Kind != "flow" || !sc.refs()[f.ID] {
			continue
		}
		mem := map[int]bool{f.Start: true}
		for _, c := range f.Conns {
			mem[c.From] = true
			if c.To >= 0 {
				mem[c.To] = true
			}
		}
		for m := range mem {
			if o, ok := owner[m]; ok && o != f.ID {
				return nil
			}
			owner[m] = f.ID
			if sc.Nodes[m].Kind == "flow" {
				nested = true
			}
		}
	}
	if !nested {
		return nil
	}
	actions := []string{"default", "a", "ab", "b", "Default", "a "}
	// entry(x): the leaf at which running x begins
	var entry func(x int) int
	entry = func(x int) int {
		if x < 0 {
			return -1
		}
		if n := sc.Nodes[x]; n.Kind == "flow" {
			return entry(n.Start)
		}
		return x
	}
	lookup := func(f *NodeSpec, from int, a string) (int, bool) {
		to, ok := -1, false
		for _, c := range f.Conns {
			if c.From == from && c.Action == a {
				to, ok = c.To, true
			}
		}
		return to, ok
	}
	// next(x, a): where control goes after member x (leaf or flow) of its owner ends with action a
	var next func(x int, a string) int
	next = func(x int, a string) int {
		o, ok := owner[x]
		if !ok {
			return -1 // x is the root: the run ends
		}
		f := sc.Nodes[o]
		to, found := lookup(f, x, a)
		if found && to >= 0 {
			return entry(to)
		}
		// the owner flow ends here with action a: continue in its own owner
		return next(o, a)
	}
	c := sc.clone()
	flat := &NodeSpec{ID: len(c.Nodes), Kind: "flow", Start: entry(sc.Root)}
	for id, n := range sc.Nodes {
		if n.Kind == "flow" || !sc.refs()[id] {
			continue
		}
		for _, a := range actions {
			if to := next(id, a); to >= 0 {
				flat.Conns = append(flat.Conns, Conn{From: id, Action: a, To: to})
			}
		}
	}
	c.Nodes = append(c.Nodes, flat)
	c.Root = flat.ID
	c.Via = sc.Via
	return c
}
