package flowsim

import "strings"

// Scenario shrinking: candidates strictly simpler than the input. The driver
// keeps a candidate when the same violation class persists.

func (sc *Scn) refs() map[int]bool {
	seen := map[int]bool{}
	var walk func(id int)
	walk = func(id int) {
		if id < 0 || id >= len(sc.Nodes) || seen[id] {
			return
		}
		seen[id] = true
		n := sc.Nodes[id]
		for _, vs := range n.Visits {
			for _, o := range []Outcome{vs.Prep, vs.Post} {
				if o.Conn != nil {
					walk(o.Conn.Flow)
					walk(o.Conn.From)
					walk(o.Conn.To)
				}
			}
			for _, it := range vs.Items {
				for _, o := range it.Exec {
					if o.Nested > 0 {
						walk(o.Nested - 1)
					}
				}
			}
			for _, o := range vs.Exec {
				if o.Nested > 0 {
					walk(o.Nested - 1)
				}
			}
		}
		if n.Kind == "flow" {
			walk(n.Start)
			for _, c := range n.Conns {
				walk(c.From)
				walk(c.To)
			}
			for _, c := range n.LateConns {
				walk(c.From)
				walk(c.To)
			}
		}
	}
	walk(sc.Root)
	return seen
}

// compact drops unreachable nodes and renumbers (order preserved, so flows
// still come after their members).
func compact(sc *Scn) *Scn {
	seen := sc.refs()
	if len(seen) == len(sc.Nodes) {
		return nil
	}
	c := sc.clone()
	remap := map[int]int{}
	var nodes []*NodeSpec
	for i, n := range c.Nodes {
		if seen[i] {
			remap[i] = len(nodes)
			nodes = append(nodes, n)
		}
	}
	for _, n := range nodes {
		for vi := range n.Visits {
			for _, o := range []*Outcome{&n.Visits[vi].Prep, &n.Visits[vi].Post} {
				if o.Conn != nil {
					o.Conn.Flow, o.Conn.From = remap[o.Conn.Flow], remap[o.Conn.From]
					if o.Conn.To >= 0 {
						o.Conn.To = remap[o.Conn.To]
					}
				}
			}
		}
		for vi := range n.Visits {
			for ai := range n.Visits[vi].Exec {
				if o := &n.Visits[vi].Exec[ai]; o.Nested > 0 {
					o.Nested = remap[o.Nested-1] + 1
				}
			}
			for ii := range n.Visits[vi].Items {
				for ai := range n.Visits[vi].Items[ii].Exec {
					if o := &n.Visits[vi].Items[ii].Exec[ai]; o.Nested > 0 {
						o.Nested = remap[o.Nested-1] + 1
					}
				}
			}
		}
		n.ID = remap[n.ID]
		if n.Kind == "flow" {
			n.Start = remap[n.Start]
			for k := range n.Conns {
				n.Conns[k].From = remap[n.Conns[k].From]
				if n.Conns[k].To >= 0 {
					n.Conns[k].To = remap[n.Conns[k].To]
				}
			}
			for k := range n.LateConns {
				n.LateConns[k].From = remap[n.LateConns[k].From]
				if n.LateConns[k].To >= 0 {
					n.LateConns[k].To = remap[n.LateConns[k].To]
				}
			}
		}
	}
	c.Nodes = nodes
	c.Root = remap[c.Root]
	return c
}

func simplerOutcome(o Outcome) []Outcome {
	var out []Outcome
	if o.SleepMs > 0 {
		c := o
		c.SleepMs = 0
		out = append(out, c)
	}
	if o.Gate != "" {
		c := o
		c.Gate = ""
		out = append(out, c)
	}
	if o.Boost {
		c := o
		c.Boost = false
		out = append(out, c)
	}
	if o.Both {
		c := o
		c.Both = false
		out = append(out, c)
	}
	if o.Nested > 0 {
		c := o
		c.Nested = 0
		out = append(out, c)
	}
	if o.Panic {
		c := o
		c.Panic = false
		out = append(out, c)
	}
	if o.Conn != nil {
		c := o
		c.Conn = nil
		out = append(out, c)
	}
	if o.Fail != "" {
		c := o
		c.Fail = ""
		out = append(out, c)
		if o.Fail != "sentinel" && o.Fail != "errres" {
			c = o
			c.Fail = "sentinel"
			out = append(out, c)
		}
	}
	if o.Pay != "" && o.Pay != "int" && o.Pay != "result" && !strings.HasPrefix(o.Pay, "nil") {
		c := o
		c.Pay = "int"
		out = append(out, c)
	}
	if o.Action != "" && o.Action != "default" {
		c := o
		c.Action = "default"
		out = append(out, c)
	}
	return out
}

func shrinkCands(x any) []any {
	sc := x.(*Scn)
	var out []any
	add := func(c *Scn) { out = append(out, c) }
	if c := compact(sc); c != nil {
		add(c)
	}
	if sc.Runs > 1 {
		c := sc.clone()
		c.Runs--
		add(c)
	}
	if sc.Via != "" {
		c := sc.clone()
		c.Via = ""
		add(c)
	}
	if sc.Canceller != nil {
		c := sc.clone()
		c.Canceller = nil
		add(c)
	}
	if sc.Ctx.Impl != "" {
		c := sc.clone()
		c.Ctx.Impl = ""
		add(c)
	}
	// run a member directly instead of the flow around it
	if root := sc.Nodes[sc.Root]; root.Kind == "flow" {
		seen := map[int]bool{}
		for _, id := range append([]int{root.Start}, connTargets(root)...) {
			if id >= 0 && !seen[id] {
				seen[id] = true
				c := sc.clone()
				c.Root = id
				c.Via = ""
				add(c)
			}
		}
	}
	for id, n := range sc.Nodes {
		if !sc.refs()[id] {
			continue
		}
		if n.Kind == "flow" {
			if len(n.Settings) > 0 {
				c := sc.clone()
				c.Nodes[id].Settings = nil
				add(c)
			}
			for k := range n.LateConns {
				c := sc.clone()
				cn := c.Nodes[id]
				cn.LateConns = append(cn.LateConns[:k], cn.LateConns[k+1:]...)
				add(c)
			}
			for k := range n.Conns {
				c := sc.clone()
				cn := c.Nodes[id]
				cn.Conns = append(cn.Conns[:k], cn.Conns[k+1:]...)
				add(c)
			}
			continue
		}
		if len(n.Visits) > 1 {
			c := sc.clone()
			c.Nodes[id].Visits = c.Nodes[id].Visits[:len(n.Visits)-1]
			add(c)
			c = sc.clone()
			c.Nodes[id].Visits = c.Nodes[id].Visits[1:]
			add(c)
		}
		for si := range n.Settings {
			c := sc.clone()
			cn := c.Nodes[id]
			cn.Settings = append(cn.Settings[:si], cn.Settings[si+1:]...)
			add(c)
			s := n.Settings[si]
			if (s.Param == "retries" && s.Val > 1) || (s.Param == "conc" && s.Val > 0) {
				c = sc.clone()
				c.Nodes[id].Settings[si].Val--
				add(c)
			}
			if s.Param == "wait" && s.Val > 10 {
				c = sc.clone()
				c.Nodes[id].Settings[si].Val = 10
				add(c)
			}
		}
		if n.HasFb {
			c := sc.clone()
			c.Nodes[id].HasFb = false
			add(c)
		}
		if n.Decoy != "" {
			c := sc.clone()
			c.Nodes[id].Decoy = ""
			add(c)
			if len(n.Decoy) > 1 {
				for k := range n.Decoy {
					c = sc.clone()
					c.Nodes[id].Decoy = n.Decoy[:k] + n.Decoy[k+1:]
					add(c)
				}
			}
		}
		if n.Hand && (n.PrepShape == "" || n.PrepShape == "results") {
			c := sc.clone()
			c.Nodes[id].Hand = false
			c.Nodes[id].PrepShape = ""
			c.Nodes[id].FnForm = "builder"
			add(c)
		}
		for vi, vs := range n.Visits {
			for _, so := range simplerOutcome(vs.Prep) {
				c := sc.clone()
				c.Nodes[id].Visits[vi].Prep = so
				add(c)
			}
			for _, so := range simplerOutcome(vs.Post) {
				c := sc.clone()
				c.Nodes[id].Visits[vi].Post = so
				add(c)
			}
			if vs.Fb != nil {
				c := sc.clone()
				c.Nodes[id].Visits[vi].Fb = nil
				add(c)
			}
			if len(vs.Exec) > 1 {
				c := sc.clone()
				c.Nodes[id].Visits[vi].Exec = c.Nodes[id].Visits[vi].Exec[1:]
				add(c)
				c = sc.clone()
				c.Nodes[id].Visits[vi].Exec = c.Nodes[id].Visits[vi].Exec[:len(vs.Exec)-1]
				add(c)
			}
			for ai, eo := range vs.Exec {
				for _, so := range simplerOutcome(eo) {
					c := sc.clone()
					c.Nodes[id].Visits[vi].Exec[ai] = so
					add(c)
				}
			}
			if n.PrepShape != "single" {
				for ii := range vs.Items {
					c := sc.clone()
					cv := &c.Nodes[id].Visits[vi]
					cv.Items = append(cv.Items[:ii], cv.Items[ii+1:]...)
					add(c)
				}
			}
			for ii, it := range vs.Items {
				if it.Fb != nil {
					c := sc.clone()
					c.Nodes[id].Visits[vi].Items[ii].Fb = nil
					add(c)
				}
				if len(it.Exec) > 1 {
					c := sc.clone()
					ce := &c.Nodes[id].Visits[vi].Items[ii]
					ce.Exec = ce.Exec[1:]
					add(c)
				}
				for ai, eo := range it.Exec {
					for _, so := range simplerOutcome(eo) {
						c := sc.clone()
						c.Nodes[id].Visits[vi].Items[ii].Exec[ai] = so
						add(c)
					}
				}
			}
		}
	}
	return out
}

func connTargets(n *NodeSpec) []int {
	var out []int
	for _, c := range n.Conns {
		out = append(out, c.From, c.To)
	}
	return out
}
