package flowsim

import (
	"encoding/json"
	"fmt"
	"hash/fnv"
	"strings"
)

// account fills in what the run covered: faults that actually fired, rare
// conditions reached, whether the run was non-trivial for its property.
func (c *octx) account() {
	o := c.out
	starts := 0
	type key struct {
		k          string
		n, v, a, i int
	}
	begin := map[key]int64{}
	retries := false
	for _, e := range c.res.Events {
		switch {
		case strings.HasSuffix(e.Kind, "_start"):
			starts++
			begin[key{strings.TrimSuffix(e.Kind, "_start"), e.N, e.V, e.A, e.I}] = e.T
			if e.Kind == "exec_start" && e.A > 1 {
				retries = true
				o.Probes["retry_attempt"]++
			}
			if e.Kind == "fb_start" {
				o.Probes["fallback_invoked"]++
				if retries {
					o.Probes["fallback_after_retries"]++
				}
			}
		case strings.HasSuffix(e.Kind, "_end"):
			switch {
			case strings.HasPrefix(e.S1, "errres:"):
				o.Faults["cb_error_result"]++
			case strings.HasPrefix(e.S1, "err:"):
				o.Faults["cb_error"]++
			}
			if t0, ok := begin[key{strings.TrimSuffix(e.Kind, "_end"), e.N, e.V, e.A, e.I}]; ok && e.T > t0 {
				o.Faults["cb_sleep"]++
			}
		case e.Kind == "cancel":
			switch {
			case e.N >= 0:
				o.Faults["cancel_in_cb"]++
			case e.N == -1:
				o.Faults["precancelled"]++
			case c.sc.Canceller != nil && c.sc.Canceller.Kind == "time":
				o.Faults["cancel_at_time"]++
			default:
				o.Faults["cancel_async"]++
			}
		}
	}
	if c.sc.Ctx.Impl != "" && (o.Faults["cancel_in_cb"]+o.Faults["precancelled"]+o.Faults["cancel_at_time"]+o.Faults["cancel_async"] > 0 || strings.HasSuffix(c.sc.Ctx.Kind, "deadline")) {
		o.Faults["ctx_impl_"+c.sc.Ctx.Impl]++
	}
	if c.sc.Ctx.Kind == "cancel" && c.sc.Ctx.DeadlineUs > 0 {
		o.Probes["cancelled_context_also_carries_deadline"]++
	}
	for _, n := range c.sc.Nodes {
		if n.Kind == "flow" && n.config().Retries > 1 {
			o.Probes["flow_with_own_retry_budget"]++
		}
		for _, st := range n.Settings {
			if st.Plain {
				o.Probes["option_passed_as_plain_func"]++
				break
			}
		}
	}
	if c.sc.Ctx.Kind == "deadline" && len(c.obs.Runs) > 0 {
		if e := c.obs.Runs[len(c.obs.Runs)-1].End; e != nil && e.T >= c.sc.Ctx.DeadlineUs*1000 {
			o.Faults["deadline"]++
		}
	}
	for _, n := range c.sc.Nodes {
		for _, vs := range n.Visits {
			for _, it := range vs.Items {
				for _, eo := range it.Exec {
					if eo.Gate != "" {
						o.Faults["cb_gate"]++
					}
				}
			}
		}
	}
	// routing probes
	for _, mr := range c.mod.Runs {
		for i := 1; i < len(mr.Visits); i++ {
			if mr.Visits[i][0] == mr.Visits[i-1][0] {
				o.Probes["self_loop_or_revisit"]++
			}
		}
		for _, v := range mr.Visits {
			if v[1] > 0 {
				o.Probes["node_revisited"]++
				break
			}
		}
		if mr.FailEnd >= 0 {
			o.Probes["run_failed_at_"+strings.TrimSuffix(mr.Main[mr.FailEnd].Kind, "_end")]++
		}
	}
	// batch probes
	for _, or := range c.obs.Runs {
		type bk struct{ n, v int }
		inflight := map[bk]int{}
		maxIn := map[bk]int{}
		lastEnd := map[bk]int{}
		for _, e := range or.All {
			if e.I == 0 {
				continue
			}
			k := bk{e.N, e.V}
			switch e.Kind {
			case "exec_start":
				inflight[k]++
				if inflight[k] > maxIn[k] {
					maxIn[k] = inflight[k]
				}
			case "exec_end":
				inflight[k]--
				if e.I < lastEnd[k] {
					o.Probes["completion_order_reversed"]++
				}
				lastEnd[k] = e.I
			}
		}
		// completion orders of small batches (evidence: how many of the n! orders were reached)
		orders := map[bk][]string{}
		for _, e := range or.All {
			if e.I > 0 && (e.Kind == "exec_end" || e.Kind == "fb_end") {
				k := bk{e.N, e.V}
				orders[k] = append(orders[k], fmt.Sprint(e.I-1))
			}
		}
		for k, ord := range orders {
			n := c.sc.Nodes[k.n]
			distinct := map[string]bool{}
			for _, x := range ord {
				distinct[x] = true
			}
			if ni := len(n.visit(k.v).Items); ni >= 2 && ni <= 4 && len(ord) == ni && len(distinct) == ni {
				o.Probes[fmt.Sprintf("order/n%d/c%d/%s", ni, min(n.config().Conc, ni), strings.Join(ord, ""))]++
			}
		}
		for k, m := range maxIn {
			if m >= 2 {
				o.Probes["items_in_flight_together"]++
			}
			if cc := c.sc.Nodes[k.n].config().Conc; cc >= 2 && m >= cc {
				o.Probes["all_c_workers_busy"]++
			}
		}
	}
	if c.boosted() {
		o.Probes["failure_handled_first_schedule"]++
	}
	b, _ := json.Marshal(c.sc)
	h := fnv.New64a()
	h.Write(b)
	o.Shape = h.Sum64()
	faults := 0
	for _, v := range o.Faults {
		faults += v
	}
	switch c.prop {
	case "C03", "C10", "C18":
		visits := 0
		for _, mr := range c.mod.Runs {
			visits += len(mr.Visits)
		}
		o.Nontrivial = visits >= 2
	case "C01", "C17", "C19", "C20":
		o.Nontrivial = starts >= 3
	default:
		o.Nontrivial = starts >= 3 && (faults > 0 || !c.sc.Faulty)
	}
	sum := summary{Faulty: c.sc.Faulty}
	for _, or := range c.obs.Runs {
		if or.End != nil {
			sum.Runs = append(sum.Runs, fmt.Sprintf("action=%q err=%s %s t=%dus", or.End.S1, or.End.S2, or.End.S3, or.End.T/1000))
		} else {
			sum.Runs = append(sum.Runs, "did not return")
		}
	}
	o.Summary = sum
}
