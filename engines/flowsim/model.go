package flowsim

import (
	"fmt"
	"sort"
	"strings"
)

// The reference model: a small recursive interpreter of a scenario, written
// from the property statements. It ignores cancellation (it describes the
// uncancelled run; the cancellation oracles relate the observed log to it) and
// scheduling (for concurrent batches it gives per-item traces, not an order).

type MEv struct {
	Kind       string
	N, V, A, I int
	S1, S2, S3 string
	T          int64 // expected simulated time in ns, -1 = not determined by the model
}

type MItem struct {
	Lane     []MEv
	Slot     string
	Fails    bool // the item's settled outcome is an error
	Optional bool // stop mode, concurrent: may legitimately never run
	Skipped  bool // stop mode, sequential: must not run
}

type MBatch struct {
	N, V      int
	Conc      int
	Stop      bool
	Items     []*MItem
	ItemsDesc string
	FirstFail int
	PostIdx   int // index of the post_start event in Main, -1 if none
}

type MRun struct {
	Action    string
	Err       string // "" = nil; otherwise the token the returned error must match
	Main      []MEv
	Batches   []*MBatch
	Visits    [][2]int
	FailEnd   int // index in Main of the *_end event of the callback whose error ended the run, -1 if none
	TimeKnown bool
	EndT      int64
}

type Model struct {
	Runs        []*MRun
	Store       string
	TooLong     bool
	Unpredicted bool
}

const visitCap = 200

type mstate struct {
	scratch int // nested runs on a scratch store in progress
	// cancellation-aware interpretation (aware == true): a cancel() scripted
	// inside a callback, or a deadline passing on the model's clock, sets
	// cancelled; from then on no new exec attempt and no new node is started
	// (C05) while everything else follows C01/C02 unchanged. aware == false
	// gives the uncancelled run the C05/C11 oracles relate the log to.
	aware       bool
	cancelled   bool
	deadline    int64 // ns, -1 = none
	runIdx      int
	tables      map[int][]Conn // per flow: the connection table as it stands now (static, then late / dynamic Connects in time order)
	unpredicted bool           // a cancellation landed where the model does not decide the outcome (inside a batch)
	sc          *Scn
	visits      []int
	now         int64
	known       bool
	run         *MRun
	steps       int
	trail       string
	last        map[int]int
	long        bool
}

func (m *mstate) t() int64 {
	if !m.known {
		return -1
	}
	return m.now
}

func (m *mstate) emit(e MEv) int {
	e.T = m.t()
	m.run.Main = append(m.run.Main, e)
	return len(m.run.Main) - 1
}

func (m *mstate) sleep(ms int) {
	m.now += int64(ms) * 1e6
	if m.aware && m.deadline >= 0 && m.now > m.deadline {
		m.cancelled = true
	}
}

// table returns the current connection table of flow n.
func (m *mstate) table(n *NodeSpec) []Conn {
	if m.tables == nil {
		m.tables = map[int][]Conn{}
	}
	t, ok := m.tables[n.ID]
	if !ok {
		t = append([]Conn(nil), n.Conns...)
		m.tables[n.ID] = t
	}
	return t
}

// during is called for every scripted callback invocation.
func (m *mstate) during(o Outcome) {
	m.sleep(o.SleepMs)
	if o.Conn != nil {
		f := m.sc.Nodes[o.Conn.Flow]
		m.tables[f.ID] = append(m.table(f), Conn{From: o.Conn.From, Action: o.Conn.Action, To: o.Conn.To})
	}
	if m.aware && o.Cancel {
		m.cancelled = true
	}
}

// retryWait advances over a retry wait; false if the context ended it.
func (m *mstate) retryWait(ms int) bool {
	end := m.now + int64(ms)*1e6
	if m.aware && m.deadline >= 0 && m.deadline > m.now && m.deadline < end {
		m.now = m.deadline
		m.cancelled = true
		return false
	}
	m.now = end
	return true
}

func hasPhase(n *NodeSpec, i int) bool {
	switch n.Kind {
	case "func":
		return n.style(i) != '-'
	case "batch":
		if i == 0 {
			return true
		}
		return n.style(i) != '-'
	}
	return true
}

// runModel: the cancellation-aware model (what the run must look like).
func runModel(sc *Scn) *Model { return runModelMode(sc, true) }

// runModelUncancelled: the same scenario with every cancellation ignored.
func runModelUncancelled(sc *Scn) *Model { return runModelMode(sc, false) }

func runModelMode(sc *Scn, aware bool) *Model {
	m := &mstate{sc: sc, visits: make([]int, len(sc.Nodes)), last: map[int]int{}, aware: aware, deadline: -1, tables: map[int][]Conn{}}
	if sc.Ctx.Kind == "deadline" {
		m.deadline = sc.Ctx.DeadlineUs * 1000
	}
	mod := &Model{}
	runs := sc.Runs
	if runs < 1 {
		runs = 1
	}
	m.known = true
	if sc.Ctx.Kind == "predeadline" {
		m.now = sc.Ctx.DeadlineUs*1000 + 1e6
	}
	for r := 0; r < runs; r++ {
		m.runIdx = r
		if r == 1 { // Connect calls made between the first and the second run
			for _, f := range sc.Nodes {
				if f.Kind == "flow" && len(f.LateConns) > 0 {
					m.tables[f.ID] = append(m.table(f), f.LateConns...)
				}
			}
		}
		m.run = &MRun{FailEnd: -1}
		m.steps = 0
		if (sc.Ctx.Kind == "precancel" || sc.Ctx.Kind == "predeadline") && (aware || sc.Nodes[sc.Root].Kind != "batch") {
			m.run.Err = "ctx"
		} else {
			// (a batch node is entered even on a done context - its prep runs, no
			// item is started; the uncancelled reading supplies the batch's items
			// for the C11 rules)
			a, e := m.runNode(sc.Root)
			m.run.Action, m.run.Err = a, e
			if sc.Via == "flowrun" && e == "" {
				m.run.Action = "(flow.Run)"
			}
		}
		m.run.TimeKnown = m.known
		m.run.EndT = m.now
		mod.Runs = append(mod.Runs, m.run)
	}
	mod.TooLong = m.long
	mod.Unpredicted = m.unpredicted
	var parts []string
	for id, v := range m.last {
		parts = append(parts, fmt.Sprintf("last_n%d=%d", id, v))
	}
	if m.trail != "" {
		parts = append(parts, "trail="+m.trail)
	}
	sort.Strings(parts)
	mod.Store = strings.Join(parts, " ")
	if sc.NilStore {
		mod.Store = "" // nothing can have been written anywhere
	}
	return mod
}

func (m *mstate) runNode(id int) (string, string) {
	n := m.sc.Nodes[id]
	switch n.Kind {
	case "flow":
		// a flow is a node with retry settings of its own (reachable through its
		// exported embedded BaseNode): a failed pass over its path is an attempt
		cfg := n.configRun(m.runIdx)
		fe := m.run.FailEnd
		a, e := "", ""
		if n.Wrap != "" && !m.cancelled {
			m.trail += fmt.Sprintf("e%d;", n.ID) // the wrapper type's own Prep
		}
		for k := 1; k <= max(cfg.Retries, 1); k++ {
			if k > 1 {
				m.run.FailEnd = fe
				if m.cancelled || (cfg.WaitMs > 0 && !m.retryWait(cfg.WaitMs)) {
					return "", "ctx"
				}
			}
			a, e = m.runFlow(n)
			if e == "" || e == "ctx" || e == "toolong" {
				break
			}
		}
		if e == "" && n.Wrap != "" {
			a = normAction(n.Wrap) // the wrapper type's own Post decides the action
			m.trail += fmt.Sprintf("x%d;", n.ID)
		}
		return a, e
	case "batch":
		return m.runBatch(n)
	}
	return m.runLeaf(n)
}

func (m *mstate) runFlow(n *NodeSpec) (string, string) {
	cur := n.Start
	last := ""
	for cur >= 0 {
		m.steps++
		if m.steps > visitCap {
			m.long = true
			return "", "toolong"
		}
		if m.cancelled {
			return "", "ctx" // no further node is started
		}
		a, e := m.runNode(cur)
		if e != "" {
			return "", e
		}
		last = a
		next, found := -1, false
		for _, c := range m.table(n) { // the most recent connection for (cur, a) wins
			if c.From == cur && c.Action == a {
				next, found = c.To, true
			}
		}
		if !found {
			break
		}
		cur = next
	}
	return last, ""
}

// storeTag: which store the callbacks of the current (possibly nested) run see.
func (m *mstate) storeTag() string {
	if m.scratch > 0 {
		return "S-other"
	}
	if m.sc.NilStore {
		return "S-nil"
	}
	return "S0"
}

// enterScratch: a nested run on a scratch store leaves the run's own store alone.
func (m *mstate) enterScratch(scratch bool) func() {
	if !scratch {
		return func() {}
	}
	last, trail := m.last, m.trail
	m.last, m.trail = map[int]int{}, ""
	m.scratch++
	return func() {
		m.scratch--
		m.last, m.trail = last, trail
	}
}

// execErrTok names the error a failing exec attempt returns. The "typednil"
// flavour is one shared value (a nil pointer in a non-nil error interface): it
// has no token of its own.
func execErrTok(o Outcome, tok string) string {
	if o.Fail == "typednil" {
		return "typednil"
	}
	return tok + "X"
}

func normAction(a string) string {
	if a == "" {
		return "default"
	}
	return a
}

func (m *mstate) runLeaf(n *NodeSpec) (string, string) {
	v := m.visits[n.ID]
	m.visits[n.ID]++
	m.run.Visits = append(m.run.Visits, [2]int{n.ID, v})
	vs := n.visit(v)
	cfg := n.configRun(m.runIdx)
	pdesc := "nil"
	if m.cancelled {
		m.visits[n.ID]--
		m.run.Visits = m.run.Visits[:len(m.run.Visits)-1]
		return "", "ctx"
	}
	if hasPhase(n, 0) {
		m.emit(MEv{Kind: "prep_start", N: n.ID, V: v, S1: m.storeTag()})
		m.during(vs.Prep)
		tok := fmt.Sprintf("n%dv%dp", n.ID, v)
		if vs.Prep.Fail != "" {
			m.run.FailEnd = m.emit(MEv{Kind: "prep_end", N: n.ID, V: v, S1: "err:" + tok + "X"})
			return "", tok + "X"
		}
		pdesc = payDesc(vs.Prep.Pay, tok)
		m.emit(MEv{Kind: "prep_end", N: n.ID, V: v, S1: "ok:" + pdesc})
	}
	budget, wait := 1, 0
	if n.retryable() {
		budget, wait = cfg.Retries, cfg.WaitMs
	}
	edesc := "nil"
	if !hasPhase(n, 1) && m.cancelled {
		return "", "ctx" // the (default) exec attempt is not started either
	}
	if hasPhase(n, 1) {
		lastErr := ""
		lastEnd := -1
		ok := false
		for a := 1; a <= budget; a++ {
			if m.cancelled {
				return "", "ctx" // no new attempt
			}
			if a > 1 && wait > 0 && !m.retryWait(wait) {
				return "", "ctx"
			}
			o := attemptOutcome(vs.Exec, a)
			tok := fmt.Sprintf("n%dv%de%d", n.ID, v, a)
			m.emit(MEv{Kind: "exec_start", N: n.ID, V: v, A: a, S1: pdesc})
			m.during(o)
			if o.Nested > 0 && m.visits[n.ID] < 8 {
				restore := m.enterScratch(o.NestedStore)
				// the attempt runs a node itself (possibly this very node object,
				// re-entrantly) and waits for it: a complete run inside the attempt,
				// whose outcome does not matter to the attempt (the harness, too,
				// stops nesting at the eighth visit: shrink candidates may nest without end)
				fe := m.run.FailEnd
				m.runNode(o.Nested - 1)
				m.run.FailEnd = fe
				restore()
			}
			switch o.Fail {
			case "":
				edesc = payDesc(o.Pay, tok)
				m.emit(MEv{Kind: "exec_end", N: n.ID, V: v, A: a, S1: "ok:" + edesc})
				ok = true
			case "errres":
				edesc = "ER(" + tok + "X)"
				m.emit(MEv{Kind: "exec_end", N: n.ID, V: v, A: a, S1: "errres:" + tok + "X"})
				ok = true
			default:
				lastErr = execErrTok(o, tok)
				lastEnd = m.emit(MEv{Kind: "exec_end", N: n.ID, V: v, A: a, S1: "err:" + lastErr})
			}
			if ok {
				break
			}
		}
		if !ok {
			errTok := lastErr
			if n.hasFallback() {
				m.emit(MEv{Kind: "fb_start", N: n.ID, V: v, S1: pdesc, S2: lastErr})
				ftok := fmt.Sprintf("n%dv%df", n.ID, v)
				switch {
				case vs.Fb == nil:
					lastEnd = m.emit(MEv{Kind: "fb_end", N: n.ID, V: v, S1: "err:=" + lastErr})
				case vs.Fb.Fail != "":
					m.during(*vs.Fb)
					errTok = ftok + "X"
					lastEnd = m.emit(MEv{Kind: "fb_end", N: n.ID, V: v, S1: "err:" + ftok + "X"})
				default:
					m.during(*vs.Fb)
					edesc = payDesc(vs.Fb.Pay, ftok)
					m.emit(MEv{Kind: "fb_end", N: n.ID, V: v, S1: "ok:" + edesc})
					errTok = ""
				}
			}
			if errTok != "" {
				m.run.FailEnd = lastEnd
				return "", errTok
			}
		}
	}
	action := "default"
	if hasPhase(n, 2) {
		m.emit(MEv{Kind: "post_start", N: n.ID, V: v, S1: m.storeTag(), S2: pdesc, S3: edesc})
		m.during(vs.Post)
		m.last[n.ID] = v
		m.trail += fmt.Sprintf("n%dv%d;", n.ID, v)
		tok := fmt.Sprintf("n%dv%dq", n.ID, v)
		if vs.Post.Fail != "" {
			et := execErrTok(vs.Post, tok)
			m.run.FailEnd = m.emit(MEv{Kind: "post_end", N: n.ID, V: v, S1: "err:" + et})
			return "", et
		}
		m.emit(MEv{Kind: "post_end", N: n.ID, V: v, S1: "ok:" + vs.Post.Action})
		action = normAction(vs.Post.Action)
	}
	return action, ""
}

// itemLane is the exact per-item trace: attempts until the first success,
// never more than the budget, then the fallback iff all attempts failed.
func (m *mstate) itemLane(n *NodeSpec, v, i int, it *Item, budget, wait int, timed bool) *MItem {
	mi := &MItem{}
	idesc := itemTok(n.ID, v, i)
	execArg := ""
	if it.Pay == "erritem" && (n.PrepShape == "" || n.PrepShape == "results") {
		idesc = "ER(" + idesc + "E)"
		if n.style(1) == 'A' {
			execArg = "nil" // an Any-style exec function sees the (nil) value of the error Result
		}
	}
	if it.Pay == "nilitem" && n.PrepShape == "anys" {
		idesc, execArg = "nil", "nil"
	}
	if it.DupOf > 0 && it.DupOf-1 < i {
		idesc = itemTok(n.ID, v, it.DupOf-1) // the same value as that item
		execArg = idesc
	}
	if execArg == "" {
		execArg = idesc
	}
	t := func() int64 {
		if timed {
			return m.now
		}
		return -1
	}
	if !hasPhase(n, 1) {
		mi.Slot = "nil"
		return mi
	}
	lastErr := ""
	ok := false
	for a := 1; a <= budget; a++ {
		if a > 1 && wait > 0 && timed {
			m.sleep(wait)
		}
		o := attemptOutcome(it.Exec, a)
		if m.aware && o.Cancel {
			m.cancelled = true
		}
		tok := fmt.Sprintf("n%dv%di%de%d", n.ID, v, i, a)
		mi.Lane = append(mi.Lane, MEv{Kind: "exec_start", N: n.ID, V: v, A: a, I: i + 1, S1: execArg, T: t()})
		if timed {
			m.sleep(o.SleepMs)
		}
		switch o.Fail {
		case "":
			mi.Slot = payDesc(o.Pay, tok)
			mi.Lane = append(mi.Lane, MEv{Kind: "exec_end", N: n.ID, V: v, A: a, I: i + 1, S1: "ok:" + mi.Slot, T: t()})
			ok = true
		case "errres":
			mi.Slot = "ER(" + tok + "X)" // an error result returned with a nil error: settled, not a failed attempt
			mi.Lane = append(mi.Lane, MEv{Kind: "exec_end", N: n.ID, V: v, A: a, I: i + 1, S1: "errres:" + tok + "X", T: t()})
			ok = true
		default:
			lastErr = execErrTok(o, tok)
			mi.Lane = append(mi.Lane, MEv{Kind: "exec_end", N: n.ID, V: v, A: a, I: i + 1, S1: "err:" + lastErr, T: t()})
		}
		if ok {
			break
		}
	}
	if !ok {
		mi.Fails = true
		mi.Slot = "ER(" + lastErr + ")"
		if n.hasFallback() {
			mi.Lane = append(mi.Lane, MEv{Kind: "fb_start", N: n.ID, V: v, I: i + 1, S1: idesc, S2: lastErr, T: t()})
			ftok := fmt.Sprintf("n%dv%di%df", n.ID, v, i)
			switch {
			case it.Fb == nil:
				mi.Lane = append(mi.Lane, MEv{Kind: "fb_end", N: n.ID, V: v, I: i + 1, S1: "err:=" + lastErr, T: t()})
			case it.Fb.Fail != "":
				if timed {
					m.sleep(it.Fb.SleepMs)
				}
				mi.Slot = "ER(" + ftok + "X)"
				mi.Lane = append(mi.Lane, MEv{Kind: "fb_end", N: n.ID, V: v, I: i + 1, S1: "err:" + ftok + "X", T: t()})
			default:
				if timed {
					m.sleep(it.Fb.SleepMs)
				}
				mi.Slot = payDesc(it.Fb.Pay, ftok)
				mi.Fails = false
				mi.Lane = append(mi.Lane, MEv{Kind: "fb_end", N: n.ID, V: v, I: i + 1, S1: "ok:" + mi.Slot, T: t()})
				if it.Fb.Pay == "result" {
					mi.Slot = ftok // a fallback that answers with a flyt.Result: that Result is the slot, not a value inside one
				}
			}
		}
	}
	return mi
}

func (m *mstate) runBatch(n *NodeSpec) (string, string) {
	v := m.visits[n.ID]
	m.visits[n.ID]++
	m.run.Visits = append(m.run.Visits, [2]int{n.ID, v})
	vs := n.visit(v)
	cfg := n.configRun(m.runIdx)
	if m.cancelled {
		m.unpredicted = true // a batch entered with a done context is C11's subject
	}
	m.emit(MEv{Kind: "prep_start", N: n.ID, V: v, S1: m.storeTag()})
	m.during(vs.Prep)
	ptok := fmt.Sprintf("n%dv%dp", n.ID, v)
	if vs.Prep.Fail != "" {
		m.run.FailEnd = m.emit(MEv{Kind: "prep_end", N: n.ID, V: v, S1: "err:" + ptok + "X"})
		return "", ptok + "X"
	}
	var toks []string
	for i := range vs.Items {
		if vs.Items[i].Pay == "erritem" && (n.PrepShape == "" || n.PrepShape == "results") {
			toks = append(toks, "ER("+itemTok(n.ID, v, i)+"E)")
		} else if vs.Items[i].Pay == "nilitem" && n.PrepShape == "anys" {
			toks = append(toks, "nil")
		} else if d := vs.Items[i].DupOf; d > 0 && d-1 < i {
			toks = append(toks, toks[d-1])
		} else {
			toks = append(toks, itemTok(n.ID, v, i))
		}
	}
	itemsDesc := "[" + strings.Join(toks, " ") + "]"
	m.emit(MEv{Kind: "prep_end", N: n.ID, V: v, S1: "ok:" + itemsDesc})
	mb := &MBatch{N: n.ID, V: v, Conc: cfg.Conc, Stop: cfg.Stop, ItemsDesc: itemsDesc, FirstFail: -1, PostIdx: -1}
	m.run.Batches = append(m.run.Batches, mb)
	seq := cfg.Conc <= 0
	if !seq && len(vs.Items) > 0 {
		m.known = false
	}
	stopped := false
	anyFail := 0
	for i := range vs.Items {
		if stopped {
			mb.Items = append(mb.Items, &MItem{Skipped: true, Fails: true, Slot: "ER(*)"})
			continue
		}
		mi := m.itemLane(n, v, i, &vs.Items[i], cfg.Retries, cfg.WaitMs, seq && m.known)
		mb.Items = append(mb.Items, mi)
		if ex := vs.Items[i].Exec; len(ex) > 0 && ex[0].Nested > 0 && ex[0].Fail == "" && m.visits[n.ID] < 8 {
			// the item's exec runs a batch node itself (possibly this very node
			// object, re-entrantly) and waits for it: a complete run inside the item
			restore := m.enterScratch(ex[0].NestedStore)
			fe := m.run.FailEnd
			m.runNode(ex[0].Nested - 1)
			m.run.FailEnd = fe
			restore()
		}
		if mi.Fails {
			anyFail++
			if mb.FirstFail < 0 {
				mb.FirstFail = i
			}
			if cfg.Stop && seq {
				stopped = true
			}
		}
	}
	if cfg.Stop && !seq {
		for _, mi := range mb.Items {
			others := anyFail
			if mi.Fails {
				others--
			}
			if others > 0 {
				mi.Optional = true
			}
		}
	}
	action := "default"
	if hasPhase(n, 2) && !(n.OptPost && m.sc.OptPostIgnored) {
		var slots []string
		fixed := true
		for _, mi := range mb.Items {
			slots = append(slots, mi.Slot)
			if mi.Optional || mi.Skipped {
				fixed = false
			}
		}
		s3 := "[" + strings.Join(slots, " ") + "]"
		if !fixed {
			s3 = "*"
		}
		if m.cancelled {
			m.unpredicted = true // cancelled while the items were processed
		}
		mb.PostIdx = m.emit(MEv{Kind: "post_start", N: n.ID, V: v, S1: m.storeTag(), S2: itemsDesc, S3: s3})
		m.during(vs.Post)
		m.last[n.ID] = v
		m.trail += fmt.Sprintf("n%dv%d;", n.ID, v)
		tok := fmt.Sprintf("n%dv%dq", n.ID, v)
		if vs.Post.Fail != "" {
			m.run.FailEnd = m.emit(MEv{Kind: "post_end", N: n.ID, V: v, S1: "err:" + tok + "X"})
			return "", tok + "X"
		}
		m.emit(MEv{Kind: "post_end", N: n.ID, V: v, S1: "ok:" + vs.Post.Action})
		action = normAction(vs.Post.Action)
	}
	return action, ""
}
