package flowsim

import (
	"encoding/json"
	"math/rand/v2"
)

type gen struct {
	r    *rand.Rand
	sc   *Scn
	tier string
	// knobs of the profile
	failP    float64 // probability that a callback outcome is a failure
	sleepP   float64
	kinds    []string
	actions  []string
	maxVisit int
	waits    []int
	noErrRes bool
	// selfReach: some flows connect an action back to themselves
	selfReach bool
	// batchStopP: probability that a batch member of a tree runs in stop mode
	batchStopP float64
	batchMax   int
}

var allLeafKinds = []string{"base", "base", "plain", "retry", "fb", "retryfb", "func", "func", "func", "zst", "ovr", "val", "deco"}
var payKinds = []string{"int", "str", "float", "map", "slice", "ptr", "struct", "nil", "nilptr", "nilmap", "nilslice", "errpay", "actempty"}
var failKinds = []string{"sentinel", "wrapped", "custom", "wrapcustom", "ctxerr", "hint", "list"}
var actionAlphabet = []string{"default", "", "a", "ab", "b", "Default", "a "} // "Default" differs from the default action by case only

func pick[T any](r *rand.Rand, xs []T) T { return xs[r.IntN(len(xs))] }

func (g *gen) chance(p float64) bool { return g.r.Float64() < p }

func (g *gen) pay() string {
	if g.chance(0.4) {
		return "int"
	}
	return pick(g.r, payKinds)
}

func (g *gen) outcome() Outcome {
	o := Outcome{}
	if g.chance(g.failP) {
		o.Fail = pick(g.r, failKinds)
	} else {
		o.Pay = g.pay()
	}
	if g.chance(g.sleepP) {
		o.SleepMs = 10 * (1 + g.r.IntN(5))
	}
	return o
}

func (g *gen) budget() int {
	switch g.r.IntN(6) {
	case 0, 1:
		return 1
	case 2:
		return 2
	case 3:
		return 3
	}
	return 1 + g.r.IntN(8)
}

func (g *gen) wait() int {
	if len(g.waits) > 0 {
		return pick(g.r, g.waits)
	}
	return pick(g.r, []int{0, 0, 10, 20, 50})
}

// execScript: a failure sequence of length <= budget+1 followed by a success
// or not; exec failures are frequent on purpose (retry / fallback paths).
func (g *gen) execScript(budget int, allowErrRes bool) []Outcome {
	var list []Outcome
	nfail := 0
	switch g.r.IntN(4) {
	case 0:
		nfail = 0
	case 1:
		nfail = g.r.IntN(budget + 2)
	case 2:
		nfail = budget - 1 // success on the last permitted attempt
	case 3:
		nfail = budget // budget exhausted
	}
	if g.failP == 0 {
		nfail = 0
	}
	if nfail < 0 {
		nfail = 0
	}
	for i := 0; i < nfail; i++ {
		o := Outcome{Fail: pick(g.r, failKinds), Both: g.chance(0.15)}
		if g.chance(0.06) {
			o.Fail = "typednil" // a nil pointer in a non-nil error interface is an error
		}
		if o.Both && allowErrRes && g.chance(0.5) {
			o.Pay = "er" // a Result-style function reports the failure both ways: an error Result and the error
		}
		if g.chance(g.sleepP) {
			o.SleepMs = 10 * (1 + g.r.IntN(3))
		}
		list = append(list, o)
	}
	last := Outcome{Pay: g.pay()}
	if allowErrRes && !g.noErrRes && g.failP > 0 && g.chance(0.15) {
		last = Outcome{Fail: "errres"}
	}
	if g.chance(g.sleepP) {
		last.SleepMs = 10 * (1 + g.r.IntN(3))
	}
	list = append(list, last)
	return list
}

func (g *gen) settings(n *NodeSpec, budget, wait int) {
	form := func() string {
		if n.Kind == "func" || n.Kind == "batch" {
			if n.Hand {
				return "opt"
			}
			return pick(g.r, []string{"opt", "builder"})
		}
		return "opt"
	}
	var ss []Setting
	if budget != 1 || g.chance(0.3) {
		ss = append(ss, Setting{Param: "retries", Form: form(), Val: budget})
	}
	if wait != 0 || g.chance(0.2) {
		ss = append(ss, Setting{Param: "wait", Form: form(), Val: wait})
	}
	if n.Kind == "func" && g.chance(0.12) {
		// batch parameters on a node that is not a batch node: unrelated, they
		// must not change its lifecycle
		if g.chance(0.7) {
			ss = append(ss, Setting{Param: "conc", Form: form(), Val: 1 + g.r.IntN(4)})
		}
		if len(ss) == 0 || g.chance(0.5) {
			ss = append(ss, Setting{Param: "stop", Form: form(), Val: g.r.IntN(2)})
		}
	}
	n.Settings = orderSettings(ss)
}

// orderSettings: constructor options come before chained builder calls in any
// program, so the sequence lists opt-form settings first (stable).
func orderSettings(ss []Setting) []Setting {
	var out []Setting
	for _, s := range ss {
		if s.Form == "opt" {
			out = append(out, s)
		}
	}
	for _, s := range ss {
		if s.Form != "opt" {
			out = append(out, s)
		}
	}
	return out
}

// leaf creates a non-batch node with nv scripted visits.
func (g *gen) leaf(nv int) *NodeSpec {
	n := &NodeSpec{ID: len(g.sc.Nodes), Kind: pick(g.r, g.kinds)}
	budget, wait := 1, 0
	if n.retryable() {
		budget, wait = g.budget(), 0
		if budget > 1 {
			wait = g.wait()
		}
	}
	switch n.Kind {
	case "base", "ovr":
		n.HasFb = g.chance(0.5)
	case "func":
		n.Styles = string([]byte{pick(g.r, []byte("RA")), pick(g.r, []byte("RA")), pick(g.r, []byte("RA"))})
		if g.chance(0.12) { // phases left unset fall back to the base node's defaults
			st := []byte(n.Styles)
			st[g.r.IntN(3)] = '-'
			if g.chance(0.3) {
				st[g.r.IntN(3)] = '-' // e.g. a routing-only node: nothing but a post function
			}
			n.Styles = string(st)
		}
		n.HasFb = g.chance(0.5)
		n.FnForm = pick(g.r, []string{"opt", "builder"})
	}
	if n.retryable() {
		g.settings(n, budget, wait)
	}
	for v := 0; v < nv; v++ {
		vs := Visit{Prep: g.outcome()}
		if g.chance(0.8) {
			vs.Prep.Fail = "" // prep failures are rarer than exec failures
			if vs.Prep.Pay == "" {
				vs.Prep.Pay = g.pay()
			}
		}
		allowER := n.Kind == "func" && n.style(1) == 'R' && n.style(2) == 'R'
		vs.Exec = g.execScript(budget, allowER)
		if n.hasFallback() && g.chance(0.7) {
			fo := g.outcome()
			if g.failP > 0 && g.chance(0.3) {
				fo = Outcome{Fail: pick(g.r, failKinds)}
			}
			if fo.Fail != "" {
				fo.Both = g.chance(0.4)
			}
			vs.Fb = &fo
		}
		vs.Post = Outcome{Action: pick(g.r, g.actions)}
		if g.chance(g.failP * 0.5) {
			vs.Post.Fail = pick(g.r, failKinds)
		}
		if g.chance(g.sleepP) {
			vs.Post.SleepMs = 10
		}
		if n.Kind != "func" && g.chance(0.15) {
			// struct / plain nodes: a payload that is itself a flyt.Result must pass through untouched
			if vs.Prep.Fail == "" && g.chance(0.5) {
				vs.Prep.Pay = "result"
			}
			for a := range vs.Exec {
				if vs.Exec[a].Fail == "" {
					vs.Exec[a].Pay = "result"
				}
			}
			if vs.Fb != nil && vs.Fb.Fail == "" {
				vs.Fb.Pay = "result"
			}
		}
		if g.chance(0.08) {
			// a list of Results as an ordinary payload of a non-batch node
			if vs.Prep.Fail == "" {
				vs.Prep.Pay = "reslist"
			}
			if a := g.r.IntN(len(vs.Exec) + 1); a < len(vs.Exec) && vs.Exec[a].Fail == "" {
				vs.Exec[a].Pay = "reslist"
			}
		}
		n.Visits = append(n.Visits, vs)
	}
	g.sc.Nodes = append(g.sc.Nodes, n)
	return n
}

// flowOver creates a flow over the given member node ids.
func (g *gen) flowOver(members []int, density float64) *NodeSpec {
	f := &NodeSpec{ID: len(g.sc.Nodes), Kind: "flow", Start: pick(g.r, members)}
	for _, from := range members {
		for _, a := range []string{"default", "a", "ab", "b", "Default", "", "a "} { // ("a " is an action of its own, not "a")
			if !g.chance(density) || ((a == "" || a == "a ") && !g.chance(0.4)) {
				continue // (the empty action is its own table key: no node can finish with it, so such an edge is dead)
			}
			to := -1
			if !g.chance(0.12) {
				to = pick(g.r, members)
			}
			f.Conns = append(f.Conns, Conn{From: from, Action: a, To: to})
			if g.chance(0.15) { // re-Connect: the later one must win
				to2 := -1
				if !g.chance(0.2) {
					to2 = pick(g.r, members)
				}
				f.Conns = append(f.Conns, Conn{From: from, Action: a, To: to2})
			}
		}
	}
	if g.selfReach && len(f.Conns) > 0 && g.chance(0.15) {
		// the table routes back into the flow object that is executing (recursion)
		f.Conns[g.r.IntN(len(f.Conns))].To = f.ID
	}
	g.r.Shuffle(len(f.Conns), func(i, j int) { f.Conns[i], f.Conns[j] = f.Conns[j], f.Conns[i] })
	g.sc.Nodes = append(g.sc.Nodes, f)
	return f
}

// tree builds a (possibly nested) flow and returns the root id.
func (g *gen) tree(nLeaves, depth int, batchP float64) int {
	var leaves []int
	for i := 0; i < nLeaves; i++ {
		if batchP > 0 && g.chance(batchP) {
			mi := 4
			if g.batchMax > 0 {
				mi = g.batchMax
			}
			leaves = append(leaves, g.batch(batchOpts{maxItems: mi, maxConc: 3, nv: 1 + g.r.IntN(g.maxVisit), stopP: g.batchStopP}).ID)
		} else {
			leaves = append(leaves, g.leaf(1+g.r.IntN(g.maxVisit)).ID)
		}
	}
	members := leaves
	for d := 1; d < depth; d++ {
		// group some members into inner flows
		var next []int
		g.r.Shuffle(len(members), func(i, j int) { members[i], members[j] = members[j], members[i] })
		i := 0
		for i < len(members) {
			k := 1 + g.r.IntN(3)
			if i+k > len(members) {
				k = len(members) - i
			}
			if k == 1 && g.chance(0.5) {
				next = append(next, members[i])
			} else {
				grp := append([]int(nil), members[i:i+k]...)
				if g.chance(0.3) && len(leaves) > 0 { // a node shared with another flow
					grp = append(grp, pick(g.r, leaves))
				}
				next = append(next, g.flowOver(grp, 0.45).ID)
			}
			i += k
		}
		members = next
	}
	return g.flowOver(members, 0.5).ID
}

// dynamicConnects: some post callbacks call Connect on an enclosing flow for
// the very (node, action) pair they are about to finish with.
func (g *gen) dynamicConnects() {
	for _, f := range g.sc.Nodes {
		if f.Kind != "flow" || !g.chance(0.3) {
			continue
		}
		members := map[int]bool{f.Start: true}
		for _, c := range f.Conns {
			members[c.From] = true
			if c.To >= 0 {
				members[c.To] = true
			}
		}
		var ms []int
		for m := range members {
			ms = append(ms, m)
		}
		sortInts(ms)
		from := pick(g.r, ms)
		n := g.sc.Nodes[from]
		if n.Kind == "flow" || len(n.Visits) == 0 {
			continue
		}
		vi := g.r.IntN(len(n.Visits))
		to := -1
		if !g.chance(0.2) {
			to = pick(g.r, ms)
		}
		n.Visits[vi].Post.Conn = &DynConn{Flow: f.ID, From: from, Action: normAction(n.Visits[vi].Post.Action), To: to}
	}
}

// lateConnects: on some flows, a few Connect calls are made after the first run.
func (g *gen) lateConnects() {
	if g.sc.Runs < 2 {
		return
	}
	for _, f := range g.sc.Nodes {
		if f.Kind != "flow" || !g.chance(0.4) {
			continue
		}
		members := map[int]bool{f.Start: true}
		for _, c := range f.Conns {
			members[c.From] = true
			if c.To >= 0 {
				members[c.To] = true
			}
		}
		var ms []int
		for m := range members {
			ms = append(ms, m)
		}
		sortInts(ms)
		for k := 1 + g.r.IntN(3); k > 0; k-- {
			to := -1
			if !g.chance(0.25) {
				to = pick(g.r, ms)
			}
			f.LateConns = append(f.LateConns, Conn{From: pick(g.r, ms), Action: pick(g.r, []string{"default", "a", "ab", "b", "Default", ""}), To: to})
		}
	}
}

func sortInts(a []int) {
	for i := 1; i < len(a); i++ {
		for j := i; j > 0 && a[j] < a[j-1]; j-- {
			a[j], a[j-1] = a[j-1], a[j]
		}
	}
}

// bounded regenerates until the model's path is within the visit cap.
func bounded(mk func() *Scn) *Scn {
	var sc *Scn
	for try := 0; try < 20; try++ {
		sc = mk()
		if !runModel(sc).TooLong {
			return sc
		}
	}
	// give up on cycles: cut every connection
	for _, n := range sc.Nodes {
		n.Conns = nil
	}
	return sc
}

type batchOpts struct {
	maxItems int
	maxConc  int
	nv       int
	stopP    float64
	shapes   []string
}

func (g *gen) batch(o batchOpts) *NodeSpec {
	n := &NodeSpec{ID: len(g.sc.Nodes), Kind: "batch"}
	n.Styles = string([]byte{'R', pick(g.r, []byte("RA")), 'R'})
	// batch functions come through builder methods or constructor options (the
	// option form was restricted to the C19 profile while defect D4 was open)
	n.FnForm = pick(g.r, []string{"opt", "builder", "builder"})
	if g.chance(0.3) {
		n.Hand = true
		n.FnForm = ""
		shapes := o.shapes
		if len(shapes) == 0 {
			shapes = []string{"results", "anys", "ints", "strings", "single", "nil"}
		}
		n.PrepShape = pick(g.r, shapes)
	}
	n.HasFb = g.chance(0.5)
	budget := g.budget()
	if budget > 4 {
		budget = 1 + g.r.IntN(4)
	}
	wait := 0
	if budget > 1 {
		wait = g.wait()
	}
	g.settings(n, budget, wait)
	form := func() string {
		if n.Hand {
			return "opt"
		}
		return pick(g.r, []string{"opt", "builder"})
	}
	conc := 0
	if o.maxConc > 0 && g.chance(0.7) {
		conc = 1 + g.r.IntN(o.maxConc)
	}
	if conc != 0 || g.chance(0.2) {
		n.Settings = append(n.Settings, Setting{Param: "conc", Form: form(), Val: conc})
	}
	if g.chance(o.stopP) {
		n.Settings = append(n.Settings, Setting{Param: "stop", Form: form(), Val: 1})
	} else if g.chance(0.2) {
		n.Settings = append(n.Settings, Setting{Param: "stop", Form: form(), Val: 0})
	}
	n.Settings = orderSettings(n.Settings)
	for v := 0; v < o.nv; v++ {
		vs := Visit{Prep: Outcome{}}
		if g.chance(g.failP * 0.3) {
			vs.Prep.Fail = pick(g.r, failKinds)
		}
		ni := 0
		switch g.r.IntN(5) {
		case 0:
			ni = g.r.IntN(2)
		case 1, 2:
			ni = 1 + g.r.IntN(3)
		default:
			ni = g.r.IntN(o.maxItems + 1)
		}
		switch n.PrepShape {
		case "single":
			ni = 1
		case "nil":
			ni = 0
		}
		for i := 0; i < ni; i++ {
			it := Item{Pay: pick(g.r, []string{"int", "str", "map", "ptr", "struct", "slice"})}
			it.Exec = g.execScript(budget, n.style(1) == 'R')
			if n.HasFb && g.chance(0.7) {
				fo := g.outcome()
				if fo.Fail != "" {
					fo.Both = g.chance(0.4)
				} else if g.chance(0.15) {
					fo.Pay = "result" // the fallback answers with a flyt.Result of its own
				}
				it.Fb = &fo
			}
			if (n.PrepShape == "" || n.PrepShape == "results") && n.style(1) == 'R' && g.chance(0.1) {
				it.Pay = "erritem" // prep hands this item over as an error Result
			}
			vs.Items = append(vs.Items, it)
		}
		vs.Post = Outcome{Action: pick(g.r, g.actions)}
		if g.chance(g.failP * 0.3) {
			vs.Post.Fail = pick(g.r, failKinds)
		}
		n.Visits = append(n.Visits, vs)
	}
	g.sc.Nodes = append(g.sc.Nodes, n)
	return n
}

func newGen(prop, tier string, r *rand.Rand) *gen {
	return &gen{r: r, tier: tier, sc: &Scn{Prop: prop}, kinds: allLeafKinds, actions: actionAlphabet, maxVisit: 3, failP: 0.25, sleepP: 0.15}
}

// generate draws one scenario for a property profile.
func generate(prop, tier string, r *rand.Rand, idx int) any {
	sc := generate1(prop, tier, r)
	if sc.Ctx.Kind != "" && r.IntN(3) == 0 {
		// the cancellation arrives through another Context implementation: what
		// counts is Done() and Err(), not how the context was made
		sc.Ctx.Impl = pick(r, []string{"cause", "custom"})
	}
	if sc.Ctx.Kind == "" && r.IntN(6) == 0 {
		// a context with a deadline a hundred hours away: as good as none
		sc.Ctx.DeadlineUs = 360_000_000_000 + int64(r.IntN(1000))
	}
	if sc.Ctx.Kind == "cancel" && sc.Ctx.DeadlineUs == 0 && r.IntN(4) == 0 {
		// the cancelled context also carries a deadline, ten hours away: it never
		// fires, and a context with a deadline is cancelled like any other
		sc.Ctx.DeadlineUs = 36_000_000_000 + int64(r.IntN(1000))
	}
	for _, n := range sc.Nodes {
		if (n.Kind == "func" || n.Kind == "batch") && !n.Hand && r.IntN(6) == 0 {
			n.Sibling = true // built from an option slice that an earlier constructor call has already seen
		}
		if (n.Kind == "func" || n.Kind == "batch") && !n.Hand {
			for i := range n.Settings {
				if n.Settings[i].Form == "opt" && r.IntN(5) == 0 {
					n.Settings[i].Plain = true // handed to the constructor as a plain func(*BaseNode)
				}
				if n.Settings[i].Form == "opt" && r.IntN(6) == 0 {
					n.Settings[i].Nest = true // applying this option builds another node on the side
				}
			}
		}
	}
	return sc
}

func generate1(prop, tier string, r *rand.Rand) *Scn {
	switch prop {
	case "C01":
		return genC01(prop, tier, r)
	case "C02":
		return genC02(prop, tier, r)
	case "C03":
		return genC03(prop, tier, r)
	case "C04":
		return genC04(prop, tier, r)
	case "C05":
		return genC05(prop, tier, r)
	case "C17":
		return genC17(prop, tier, r)
	case "C19":
		return genC19(prop, tier, r)
	case "C10":
		return genC10(prop, tier, r)
	case "C11":
		return genC11(prop, tier, r)
	case "C20":
		return genC20(prop, tier, r)
	case "C18":
		return genC18(prop, tier, r)
	case "C06":
		return genC06(prop, tier, r)
	case "C07":
		return genC07(prop, tier, r)
	case "C08":
		return genC08(prop, tier, r)
	case "C09":
		return genC09(prop, tier, r)
	}
	panic("flowsim: no generator for " + prop)
}

func faultfree(g *gen, r *rand.Rand) {
	// half of the runs are fault free: the model must match exactly there, so
	// nothing an oracle tolerates under faults can hide an ordinary bug
	if r.IntN(2) == 0 {
		g.failP = 0
	} else {
		g.sc.Faulty = true
	}
}

func genC01(prop, tier string, r *rand.Rand) *Scn {
	if r.IntN(7) == 0 {
		// a batch node is a node: prep once, then only item executions, then post
		// at most once and only when every item execution is over
		return genC09(prop, tier, r)
	}
	sc := genC01base(prop, tier, r)
	if r.IntN(4) == 0 {
		withCancellation(sc, r)
	}
	return sc
}

func genC01base(prop, tier string, r *rand.Rand) *Scn {
	return bounded(func() *Scn {
		g := newGen(prop, tier, r)
		faultfree(g, r)
		if r.IntN(3) > 0 {
			n := g.leaf(1 + r.IntN(3))
			g.sc.Root = n.ID
			g.sc.Runs = len(n.Visits)
			if r.IntN(12) == 0 {
				g.sc.NilStore = true // the very store given to the run is what prep and post get - also when it is nil
			}
			if len(n.Visits) >= 2 && hasPhase(n, 1) && r.IntN(5) == 0 {
				// re-entrancy on one goroutine: an exec attempt of the first run runs
				// the same node object again (the second visit) and then carries on -
				// what a run hands from phase to phase belongs to that run
				n.Visits[0].Exec[r.IntN(len(n.Visits[0].Exec))].Nested = n.ID + 1
				g.sc.Runs = len(n.Visits) - 1
			}
		} else {
			g.sc.Root = g.tree(1+r.IntN(4), 1+r.IntN(2), 0)
			g.sc.Runs = 1 + r.IntN(2)
			if r.IntN(4) == 0 {
				// an embedded flow used through a type that embeds *flyt.Flow and has
				// a Prep and a Post of its own: a node like any other - its phases run
				// (once each) around the embedded walk, and its Post names the action
				for _, n := range g.sc.Nodes {
					if n.Kind == "flow" && n.ID != g.sc.Root && r.IntN(2) == 0 {
						n.Wrap = pick(r, []string{"a", "b", "default", "ab"})
					}
				}
			}
		}
		return g.sc
	})
}

func genC02(prop, tier string, r *rand.Rand) *Scn {
	sc := genC02base(prop, tier, r)
	if r.IntN(4) == 0 {
		withCancellation(sc, r)
	}
	return sc
}

func genC02base(prop, tier string, r *rand.Rand) *Scn {
	return bounded(func() *Scn {
		g := newGen(prop, tier, r)
		g.failP = 0.35
		g.sc.Faulty = true
		switch r.IntN(3) {
		case 0:
			n := g.leaf(1 + r.IntN(3))
			g.sc.Root = n.ID
			g.sc.Runs = len(n.Visits)
		case 1:
			// per-item budgets hold in either error mode: an item that is started
			// gets its full treatment (stop mode: all or nothing per item)
			n := g.batch(batchOpts{maxItems: 8, maxConc: 4, nv: 1 + r.IntN(2), stopP: 0.35})
			g.sc.Root = n.ID
			g.sc.Runs = len(n.Visits)
			if n.config().Stop { // error results do not count as failures for stopping: keep them out
				for v := range n.Visits {
					for i := range n.Visits[v].Items {
						for a := range n.Visits[v].Items[i].Exec {
							if n.Visits[v].Items[i].Exec[a].Fail == "errres" {
								n.Visits[v].Items[i].Exec[a] = Outcome{Pay: "int"}
							}
						}
					}
				}
				if g.chance(0.5) {
					for v := range n.Visits {
						for i := range n.Visits[v].Items {
							for a := range n.Visits[v].Items[i].Exec {
								n.Visits[v].Items[i].Exec[a].SleepMs = 10 * g.r.IntN(4)
							}
						}
					}
				}
			}
		default:
			g.sc.Root = g.tree(1+r.IntN(4), 1+r.IntN(2), 0.3)
			if r.IntN(3) == 0 {
				// a flow is retryable like any node: a failed pass over its path is
				// one attempt, the next attempt starts again at its start node
				var flows []*NodeSpec
				for _, n := range g.sc.Nodes {
					if n.Kind == "flow" {
						flows = append(flows, n)
					}
				}
				f := pick(r, flows)
				f.Settings = []Setting{{Param: "retries", Form: "opt", Val: 2 + r.IntN(2)}}
				if r.IntN(3) == 0 {
					f.Settings = append(f.Settings, Setting{Param: "wait", Form: "opt", Val: 10})
				}
			}
		}
		return g.sc
	})
}

func genC03(prop, tier string, r *rand.Rand) *Scn {
	sc := genC03base(prop, tier, r)
	if r.IntN(6) == 0 {
		// the path the table determines is also the path of a run whose context
		// ends on the way: it stops there, or - cancelled inside its last node -
		// still ends successfully
		withCancellation(sc, r)
	}
	return sc
}

func genC03base(prop, tier string, r *rand.Rand) *Scn {
	return bounded(func() *Scn {
		g := newGen(prop, tier, r)
		faultfree(g, r)
		g.sleepP = 0.05
		g.selfReach = true
		nl := 1 + r.IntN(6)
		if r.IntN(8) == 0 {
			nl = 6 + r.IntN(7)
		}
		g.maxVisit = 4
		g.sc.Root = g.tree(nl, 1+r.IntN(3), 0.1)
		g.sc.Runs = 1 + r.IntN(3)
		if r.IntN(3) == 0 {
			g.sc.Via = "flowrun"
		}
		g.lateConnects()
		g.dynamicConnects()
		if r.IntN(6) == 0 {
			// an inner flow used through a type that embeds *flyt.Flow and overrides
			// Post: the parent routes on the action that Post returns
			for _, n := range g.sc.Nodes {
				if n.Kind == "flow" && n.ID != g.sc.Root && r.IntN(2) == 0 {
					n.Wrap = pick(r, []string{"a", "b", "default", "ab"})
				}
			}
		}
		return g.sc
	})
}

func genC04(prop, tier string, r *rand.Rand) *Scn {
	sc := genC04base(prop, tier, r)
	if r.IntN(4) == 0 {
		withCancellation(sc, r)
	}
	return sc
}

func genC04base(prop, tier string, r *rand.Rand) *Scn {
	return bounded(func() *Scn {
		g := newGen(prop, tier, r)
		faultfree(g, r)
		g.sleepP = 0.05
		g.batchStopP = 0.3 // fail-stop also means: nothing of the run is still executing when it has returned
		g.batchMax = 10
		g.sc.Root = g.tree(1+r.IntN(6), 1+r.IntN(4), 0.15)
		if r.IntN(4) == 0 {
			g.sc.Via = "flowrun"
		}
		// the same flow object is run again after a run that failed: whether a
		// run fails depends on the callbacks of that run alone
		g.sc.Runs = 1 + r.IntN(3)
		return g.sc
	})
}

// ---- batch profiles -----------------------------------------------------------------

// batchSize: biased small, occasionally up to max.
func batchSize(r *rand.Rand, max int) int {
	switch r.IntN(6) {
	case 0:
		return r.IntN(2)
	case 1, 2:
		return 1 + r.IntN(4)
	case 3:
		return r.IntN(9)
	}
	return r.IntN(max + 1)
}

// setBatchConfig replaces the batch-specific settings of n.
func setBatchConfig(g *gen, n *NodeSpec, budget, wait, conc int, stop bool) {
	form := func() string {
		if n.Hand {
			return "opt"
		}
		return pick(g.r, []string{"opt", "builder"})
	}
	n.Settings = nil
	if budget != 1 {
		n.Settings = append(n.Settings, Setting{Param: "retries", Form: form(), Val: budget})
	}
	if wait != 0 {
		n.Settings = append(n.Settings, Setting{Param: "wait", Form: form(), Val: wait})
	}
	if conc != 0 || g.chance(0.2) {
		n.Settings = append(n.Settings, Setting{Param: "conc", Form: form(), Val: conc})
	}
	if stop {
		n.Settings = append(n.Settings, Setting{Param: "stop", Form: form(), Val: 1})
	} else if g.chance(0.2) {
		n.Settings = append(n.Settings, Setting{Param: "stop", Form: form(), Val: 0})
	}
	n.Settings = orderSettings(n.Settings)
}

// rootBatch creates a single batch node with one visit of n items and makes
// it the scenario root (sometimes as the only member of a flow).
func (g *gen) rootBatch(ni, budget, wait, conc int, stop bool, shapes []string) *NodeSpec {
	n := &NodeSpec{ID: len(g.sc.Nodes), Kind: "batch"}
	n.Styles = string([]byte{'R', pick(g.r, []byte("RA")), 'R'})
	n.FnForm = "builder"
	if len(shapes) > 0 && g.chance(0.35) {
		n.Hand = true
		n.FnForm = ""
		n.PrepShape = pick(g.r, shapes)
		switch n.PrepShape {
		case "single":
			ni = 1
		case "nil":
			ni = 0
		}
	}
	if g.chance(0.3) {
		n.Hand = true
		n.FnForm = ""
		if n.PrepShape == "" {
			n.PrepShape = "results"
		}
		n.HasFb = g.chance(0.7)
	}
	if !n.Hand && g.chance(0.3) {
		n.FnForm = "opt" // exec function and fallback given as constructor options
		n.HasFb = g.chance(0.5)
	}
	setBatchConfig(g, n, budget, wait, conc, stop)
	vs := Visit{Post: Outcome{Action: pick(g.r, []string{"default", "a", "b", ""})}}
	for i := 0; i < ni; i++ {
		it := Item{Pay: pick(g.r, []string{"int", "str", "map", "ptr", "struct", "slice"})}
		it.Exec = g.execScript(budget, n.style(1) == 'R' && !stop)
		if n.HasFb && g.chance(0.6) {
			fo := g.outcome()
			if fo.Fail != "" {
				fo.Both = g.chance(0.4)
			} else if g.chance(0.15) {
				fo.Pay = "result"
			}
			it.Fb = &fo
		}
		if (n.PrepShape == "" || n.PrepShape == "results") && n.style(1) == 'R' && g.chance(0.1) {
			it.Pay = "erritem"
		}
		vs.Items = append(vs.Items, it)
	}
	n.Visits = []Visit{vs}
	g.sc.Nodes = append(g.sc.Nodes, n)
	g.sc.Root = n.ID
	if g.chance(0.15) {
		f := &NodeSpec{ID: len(g.sc.Nodes), Kind: "flow", Start: n.ID}
		g.sc.Nodes = append(g.sc.Nodes, f)
		g.sc.Root = f.ID
	}
	return n
}

// secondRun: the same batch node object is run a second time with a fresh,
// differently sized visit (nothing may leak from the first run).
func (g *gen) secondRun(n *NodeSpec, budget int, allowErrRes bool) {
	if !g.chance(0.25) || n.PrepShape == "single" || n.PrepShape == "nil" {
		return
	}
	v2 := Visit{Post: Outcome{Action: pick(g.r, []string{"default", "a", "b"})}}
	for i := batchSize(g.r, 12); i > 0; i-- {
		it := Item{Pay: pick(g.r, []string{"int", "str", "map", "ptr", "struct", "slice"})}
		it.Exec = g.execScript(budget, allowErrRes)
		for a := range it.Exec {
			it.Exec[a].SleepMs = 0
		}
		if n.HasFb && g.chance(0.6) {
			fo := g.outcome()
			fo.SleepMs = 0
			it.Fb = &fo
		}
		v2.Items = append(v2.Items, it)
	}
	n.Visits = append(n.Visits, v2)
	g.sc.Runs = 2
}

// timing decides how completion orders get explored: by the scheduler
// (zero-duration callbacks, run-me-last gates) or by the fake clock (drawn durations).
func (g *gen) timing(n *NodeSpec) {
	vs := &n.Visits[0]
	mode := g.r.IntN(3)
	for i := range vs.Items {
		for a := range vs.Items[i].Exec {
			o := &vs.Items[i].Exec[a]
			o.SleepMs = 0
			switch mode {
			case 1:
				o.SleepMs = 10 * g.r.IntN(6)
			case 2:
				if g.chance(0.3) {
					o.Gate = "last"
				}
			}
		}
	}
}

func genC06(prop, tier string, r *rand.Rand) *Scn {
	g := newGen(prop, tier, r)
	g.failP = 0.2
	g.sc.Faulty = true
	g.noErrRes = false
	conc := 0
	if r.IntN(4) > 0 {
		conc = 1 + r.IntN(16)
		if r.IntN(2) == 0 {
			conc = 1 + r.IntN(4)
		}
	}
	budget := 1 + r.IntN(2)
	stop := r.IntN(4) == 0 // positional correspondence holds in either error mode
	if r.IntN(8) == 0 {
		return reentrantBatch(g, r)
	}
	if r.IntN(8) == 0 {
		// equal values at several positions of the item list are items of their
		// own: each is processed, each gets the result of its own processing
		g.failP = 0
		k := 2 + r.IntN(6)
		n := g.rootBatch(k, 1, 0, 0, r.IntN(4) == 0, []string{"results", "anys", "ints", "strings"})
		n.HasFb = false
		for i := range n.Visits[0].Items {
			n.Visits[0].Items[i] = Item{Pay: pick(r, []string{"int", "str"}), Exec: []Outcome{{Pay: g.pay()}}}
			if i > 0 && r.IntN(2) == 0 {
				d := r.IntN(i)
				if n.Visits[0].Items[d].DupOf == 0 {
					n.Visits[0].Items[i].DupOf = d + 1
					n.Visits[0].Items[i].Pay = n.Visits[0].Items[d].Pay
				}
			}
		}
		return g.sc
	}
	if r.IntN(10) == 0 {
		// the deadline falls inside (or is nearer than) the retry wait of an item
		// whose first attempt failed: whatever is made of the wait, that item's
		// slot is its own outcome - an error - and the others keep theirs
		g.failP = 0
		ni := 1 + r.IntN(6)
		n := g.rootBatch(ni, 2, 0, conc, stop, []string{"results", "anys", "ints", "strings"})
		n.Settings = nil
		setBatchConfig(g, n, 2, pick(r, []int{50, 30000}), conc, stop)
		vs := &n.Visits[0]
		for i := range vs.Items {
			vs.Items[i].Exec = []Outcome{{Pay: "int"}}
			vs.Items[i].Fb = nil
		}
		vs.Items[r.IntN(ni)].Exec = []Outcome{{Fail: pick(r, failKinds)}, {Pay: "int"}}
		g.sc.Ctx = CtxSpec{Kind: "deadline", DeadlineUs: int64(1000*(1+r.IntN(40)) + 1 + r.IntN(900))}
		return g.sc
	}
	n := g.rootBatch(batchSize(r, 64), budget, pick(r, []int{0, 0, 10}), conc, stop, []string{"results", "anys", "ints", "strings", "single", "nil"})
	g.timing(n)
	if r.IntN(8) == 0 {
		n.Visits[0].Post.Fail = pick(r, failKinds) // a failing post is still called once (the retry budget is for item executions)
	}
	if r.IntN(7) == 0 && len(n.Visits[0].Items) > 0 {
		// post must wait for every item also when the run is cancelled meanwhile
		g.sc.Ctx.Kind = "cancel"
		if r.IntN(2) == 0 {
			g.sc.Canceller = &Canceller{Kind: "ticket"}
		} else {
			vs := &n.Visits[0]
			i := r.IntN(len(vs.Items))
			o := g.sc.outcomeAt(MEv{Kind: "exec_start", N: n.ID, V: 0, A: 1, I: i + 1})
			o.Cancel = true
		}
		return g.sc
	}
	g.secondRun(n, budget, n.style(1) == 'R' && !stop)
	if g.sc.Runs == 2 && (n.PrepShape == "" || n.PrepShape == "results") && r.IntN(2) == 0 {
		// the first run's post keeps the result list it was given; the second
		// run's prep builds its items in that slice's storage. After post has
		// returned the list is the caller's: the second run's results must not
		// land in it (post would see results where its items should be)
		g.sc.ReuseKept = true
	}
	return g.sc
}

// reentrantBatch: re-entrancy on one goroutine. An item's exec runs the same
// batch node object again (a recursive walk), with a shorter item list of its
// own; each run's post gets that run's results.
func reentrantBatch(g *gen, r *rand.Rand) *Scn {
	g.failP = 0
	k := 2 + r.IntN(5)
	n := g.rootBatch(k, 1, 0, 0, false, []string{"results", "anys"})
	n.HasFb = false
	v1 := Visit{Post: Outcome{Action: "default"}}
	for i := 1 + r.IntN(k); i > 0; i-- {
		v1.Items = append(v1.Items, Item{Pay: pick(r, []string{"int", "str", "map"}), Exec: []Outcome{{Pay: g.pay()}}})
	}
	for i := range n.Visits[0].Items {
		n.Visits[0].Items[i] = Item{Pay: pick(r, []string{"int", "str", "map"}), Exec: []Outcome{{Pay: g.pay()}}}
	}
	n.Visits[0].Items[r.IntN(k)].Exec[0].Nested = n.ID + 1
	n.Visits = append(n.Visits, v1)
	return g.sc
}

func genC07(prop, tier string, r *rand.Rand) *Scn {
	g := newGen(prop, tier, r)
	g.failP = 0.45
	g.sc.Faulty = true
	conc := 0
	if r.IntN(3) > 0 {
		conc = 1 + r.IntN(8)
	}
	budget := 1 + r.IntN(4)
	n := g.rootBatch(batchSize(r, 32), budget, pick(r, []int{0, 0, 10, 20}), conc, false, []string{"results", "anys"})
	if !n.Hand && r.IntN(2) == 0 { // fallbacks need the hand-composed form outside C19
		n.Hand, n.FnForm, n.PrepShape, n.HasFb = true, "", "results", true
		for i := range n.Visits[0].Items {
			if g.chance(0.6) {
				fo := g.outcome()
				if fo.Fail == "" && g.chance(0.2) {
					fo.Pay = "result"
				}
				n.Visits[0].Items[i].Fb = &fo
			}
		}
	}
	g.timing(n)
	g.secondRun(n, budget, false)
	return g.sc
}

func genC08(prop, tier string, r *rand.Rand) *Scn {
	g := newGen(prop, tier, r)
	g.failP = 0.1
	conc := r.IntN(17)
	if r.IntN(2) == 0 {
		conc = r.IntN(5)
	}
	if r.IntN(12) == 0 {
		conc = -1 - r.IntN(2) // a non-positive limit means sequential
	}
	ni := r.IntN(4*max(conc, 0) + 9)
	if r.IntN(3) == 0 {
		ni = r.IntN(max(conc, 0) + 3)
	}
	// the limit is a property of the pool, not of the error mode: a third of the
	// batches run in stop-on-error mode (without failing items, so that every
	// gated item can start)
	stop := r.IntN(3) == 0
	if stop {
		g.failP = 0
	}
	budget, wait := 1+r.IntN(2), 0
	if !stop && r.IntN(4) == 0 {
		// an item waiting for its next attempt still occupies its worker: the
		// limit holds while items fail, wait and retry next to long-running ones
		budget, wait = 2+r.IntN(2), pick(r, []int{10, 20, 30})
		g.failP = 0.3
	}
	if r.IntN(8) == 0 {
		return genC08nested(g, r)
	}
	n := g.rootBatch(ni, budget, wait, conc, stop, nil)
	g.timing(n)
	if r.IntN(10) == 0 && ni > 0 {
		// the deadline passes while executions that take their time are going on:
		// the bound holds, post waits for every execution that was started, and
		// nothing is still executing when the run has returned
		for i := range n.Visits[0].Items {
			for a := range n.Visits[0].Items[i].Exec {
				n.Visits[0].Items[i].Exec[a].Gate = ""
				n.Visits[0].Items[i].Exec[a].SleepMs = 10 * (1 + r.IntN(6))
			}
		}
		g.sc.Ctx = CtxSpec{Kind: "deadline", DeadlineUs: int64(1000*(1+r.IntN(60)) + 1 + r.IntN(900))}
		return g.sc
	}
	if wait > 0 {
		// (the usability workloads below need every first attempt to park: keep this one to the upper bound)
		return g.sc
	}
	switch r.IntN(4) {
	case 0:
		// usability: every execution parks until min(c, n) executions have started
		vs := &n.Visits[0]
		for i := range vs.Items {
			for a := range vs.Items[i].Exec {
				vs.Items[i].Exec[a].Gate = ""
				vs.Items[i].Exec[a].SleepMs = 0
			}
			vs.Items[i].Exec[0].Gate = "barrier"
		}
	case 1, 2:
		// usability, general form: up to c mutually dependent items anywhere in
		// the batch each park until all of them have started; the others run freely
		vs := &n.Visits[0]
		for i := range vs.Items {
			for a := range vs.Items[i].Exec {
				vs.Items[i].Exec[a].Gate = ""
				vs.Items[i].Exec[a].SleepMs = 0
			}
		}
		k := max(conc, 1)
		if len(vs.Items) < k {
			k = len(vs.Items)
		}
		if k > 0 {
			k = 1 + r.IntN(k)
			for _, i := range r.Perm(len(vs.Items))[:k] {
				vs.Items[i].Exec[0].Gate = "dep"
			}
		}
	}
	return g.sc
}

// genC08nested: one item of an outer batch runs a batch of its own (with the
// context it was handed); the inner batch's configured limit is as usable as
// anywhere else: its first min(c, n) executions park until all of them have started.
func genC08nested(g *gen, r *rand.Rand) *Scn {
	g.failP = 0
	ic := 2 + r.IntN(3)
	inner := g.rootBatch(ic+r.IntN(4), 1, 0, ic, false, nil)
	for i := range inner.Visits[0].Items {
		inner.Visits[0].Items[i].Exec = []Outcome{{Pay: "int", Gate: "barrier"}}
		inner.Visits[0].Items[i].Pay = "int"
	}
	g.sc.Nodes = g.sc.Nodes[:inner.ID+1] // (drop a flow rootBatch may have wrapped around it)
	outer := g.rootBatch(1+r.IntN(5), 1, 0, r.IntN(4), false, nil)
	for i := range outer.Visits[0].Items {
		outer.Visits[0].Items[i].Exec = []Outcome{{Pay: "int"}}
		outer.Visits[0].Items[i].Pay = "int"
	}
	outer.Visits[0].Items[r.IntN(len(outer.Visits[0].Items))].Exec[0].Nested = inner.ID + 1
	return g.sc
}

func genC09(prop, tier string, r *rand.Rand) *Scn {
	g := newGen(prop, tier, r)
	g.failP = 0
	g.sc.Faulty = true
	conc := r.IntN(5)
	stop := r.IntN(4) > 0
	budget := 1 + r.IntN(2)
	ni := 1 + r.IntN(16)
	if r.IntN(2) == 0 {
		ni = 1 + r.IntN(6)
	}
	n := g.rootBatch(ni, budget, 0, conc, stop, []string{"results", "anys"})
	vs := &n.Visits[0]
	// failing items: one (anywhere), sometimes more
	fail := func(i int) {
		vs.Items[i].Exec = nil
		for a := 0; a < budget; a++ {
			vs.Items[i].Exec = append(vs.Items[i].Exec, Outcome{Fail: pick(r, failKinds)})
		}
		vs.Items[i].Fb = nil
		if n.HasFb && r.IntN(2) == 0 {
			// the fallback fails too, sometimes handing its input back together with the error
			vs.Items[i].Fb = &Outcome{Fail: pick(r, failKinds), Both: r.IntN(5) < 3}
		}
	}
	f := r.IntN(ni)
	fail(f)
	for k := r.IntN(3); k > 0; k-- {
		fail(r.IntN(ni))
	}
	if r.IntN(8) == 0 {
		// the deadline falls inside the retry wait of an item whose first attempt
		// failed: the wait is cut short and the item's slot is an error - the
		// item is not a success, and it is not forgotten
		n.Settings = nil
		setBatchConfig(g, n, 2, 50, conc, stop)
		for i := range vs.Items {
			vs.Items[i].Exec = []Outcome{{Pay: "int"}}
			vs.Items[i].Fb = nil
		}
		vs.Items[r.IntN(ni)].Exec = []Outcome{{Fail: pick(r, failKinds)}, {Pay: "int"}}
		g.sc.Ctx = CtxSpec{Kind: "deadline", DeadlineUs: int64(1000*(1+r.IntN(40)) + 1 + r.IntN(900))}
		return g.sc
	}
	if conc == 0 && r.IntN(8) == 0 {
		// an exec that panics (with a non-error value): the panic may reach the
		// caller, or be reported as that item's error - never as a success
		for i := range vs.Items {
			vs.Items[i].Exec = []Outcome{{Pay: "int"}}
			vs.Items[i].Fb = nil
		}
		vs.Items[r.IntN(ni)].Exec[0].Panic = true
		n.Settings = nil
		setBatchConfig(g, n, 1, 0, 0, stop)
		return g.sc
	}
	if r.IntN(5) == 0 {
		// second sentence under cancellation: items the cancellation kept from
		// running must reach post as errors, also on a node whose fallback recovers
		g.sc.Ctx.Kind = "cancel"
		if n.HasFb {
			for i := range vs.Items {
				vs.Items[i].Fb = &Outcome{Pay: g.pay()}
			}
		}
		if r.IntN(3) == 0 {
			g.sc.Canceller = &Canceller{Kind: "ticket"}
		} else {
			o := g.sc.outcomeAt(MEv{Kind: "exec_start", N: n.ID, V: 0, A: 1, I: r.IntN(ni) + 1})
			o.Cancel = true
		}
		g.timing(n)
		return g.sc
	}
	if conc > 1 && stop && r.IntN(2) == 0 && f < conc {
		// "failure handled first": the other in-flight items park inside their
		// exec until the failure is seen; the failing worker then runs alone
		for i := range vs.Items {
			if vs.Items[i].Exec[0].Fail != "" {
				if i != f { // keep a single failing item in this mode
					vs.Items[i].Exec = []Outcome{{Pay: "int"}}
				}
				continue
			}
			if i < conc {
				vs.Items[i].Exec[0].Gate = "failseen"
			}
		}
		last := len(vs.Items[f].Exec) - 1
		vs.Items[f].Exec[last].Boost = true
	} else {
		g.timing(n)
	}
	return g.sc
}

// withCancellation turns a (batch-free, single-run) scenario into one where the
// context is cancelled from inside one callback on the executed path, or by a
// deadline strictly inside a simulated sleep or retry wait. The cancellation-
// aware model then says exactly what the run must look like (C01/C02/C04 keep
// holding: post iff the exec phase produced a result, fallback iff all N
// attempts failed, the error reported is the context's when cut short).
func withCancellation(sc *Scn, r *rand.Rand) {
	for _, n := range sc.Nodes {
		if n.Kind == "batch" {
			return
		}
	}
	sc.Runs = 1
	mr := runModelUncancelled(sc).Runs[0]
	// the deadline variant needs the model's clock to be exact; it is, as long as
	// only the scripted callbacks consume time ("at least w" leaves retry waits
	// free to be longer)
	// ... or the deadline falls before the end of the first retry wait on the
	// path: everything before that instant is scripted callback time, and an
	// instant inside the first wait stays inside it however long the wait is
	limit := mr.EndT
	for i := 1; i < len(mr.Main); i++ {
		if mr.Main[i].Kind == "exec_start" && mr.Main[i].A > 1 && mr.Main[i].T > mr.Main[i-1].T {
			limit = mr.Main[i].T
			break
		}
	}
	if r.IntN(3) == 0 && limit > 1000 {
		d := r.Int64N(limit / 1000)
		if d%10000 == 0 {
			d += 1 + r.Int64N(9999)
		}
		sc.Ctx = CtxSpec{Kind: "deadline", DeadlineUs: d}
		return
	}
	starts := startEvents(mr)
	for try := 0; try < 8 && len(starts) > 0; try++ {
		if o := sc.outcomeAt(pick(r, starts)); o != nil {
			o.Cancel = true
			sc.Ctx.Kind = "cancel"
			return
		}
	}
}

// ---- cancellation profiles -----------------------------------------------------------

func startEvents(mr *MRun) []MEv {
	var out []MEv
	for _, e := range mr.Main {
		switch e.Kind {
		case "prep_start", "exec_start", "fb_start", "post_start":
			out = append(out, e)
		}
	}
	return out
}

func genC05(prop, tier string, r *rand.Rand) *Scn {
	sc := bounded(func() *Scn {
		g := newGen(prop, tier, r)
		g.failP = 0.2
		g.sleepP = 0.3
		g.sc.Faulty = true
		g.waits = []int{0, 10, 20, 50, 50}
		if r.IntN(3) == 0 {
			n := g.leaf(1)
			g.sc.Root = n.ID
		} else {
			// batch nodes may be members (a node that must not be started after the
			// cancellation); the cancellation itself lands in main-lane callbacks
			g.sc.Root = g.tree(1+r.IntN(5), 1+r.IntN(3), 0.2)
		}
		if r.IntN(4) == 0 && g.sc.Nodes[g.sc.Root].Kind == "flow" {
			g.sc.Via = "flowrun"
		}
		return g.sc
	})
	sc.Runs = 1
	mod := runModelUncancelled(sc)
	mr := mod.Runs[0]
	switch mode := r.IntN(8); {
	case mode == 0:
		sc.Ctx.Kind = "precancel"
	case mode == 1:
		sc.Ctx = CtxSpec{Kind: "predeadline", DeadlineUs: int64(1000 * (1 + r.IntN(50)))}
	case mode <= 3 && mr.EndT > 0:
		// a deadline strictly inside a callback's sleep or a retry wait (off the 10ms grid)
		us := mr.EndT / 1000
		d := r.Int64N(us)
		if d%10000 == 0 {
			d += 1 + r.Int64N(9999)
		}
		sc.Ctx = CtxSpec{Kind: "deadline", DeadlineUs: d}
	default:
		starts := startEvents(mr)
		sc.Ctx.Kind = "cancel"
		for try := 0; try < 8 && len(starts) > 0; try++ {
			e := pick(r, starts)
			if o := sc.outcomeAt(e); o != nil {
				o.Cancel = true
				if r.IntN(3) == 0 {
					// the context also carries a deadline that would fall shortly after
					// the cancelling callback (inside a following retry wait, say): it is
					// cancelled, not timed out, and that is what the run reports
					sc.Ctx.DeadlineUs = e.T/1000 + int64(o.SleepMs)*1000 + 1 + r.Int64N(45000)
					if sc.Ctx.DeadlineUs%10000 == 0 {
						sc.Ctx.DeadlineUs += 1 + r.Int64N(9999)
					}
				}
				break
			}
		}
	}
	return sc
}

// ---- C18 / C17 / C19 / C20 ------------------------------------------------------------

// anyNode creates a node of any kind (leaf kinds, function nodes with unset
// phases, batch nodes with 0..3 items) whose post returns the given action.
func (g *gen) anyNode(action string) *NodeSpec {
	g.failP = 0
	switch g.r.IntN(3) {
	case 0:
		conc := g.r.IntN(3)
		n := g.rootBatch(g.r.IntN(4), 1, 0, conc, g.chance(0.3), []string{"results", "anys", "nil", "single"})
		n.Visits[0].Post.Action = action
		if g.chance(0.2) {
			n.Styles = "RR-" // no post function: the default action
		} else if !n.Hand && g.chance(0.25) {
			n.OptPost = true // post given as a generic function option to NewBatchNode
			st := []byte(n.Styles)
			st[2] = pick(g.r, []byte("RA"))
			n.Styles = string(st)
		}
		return n
	default:
		n := g.leaf(1)
		if n.Kind == "func" && g.chance(0.3) {
			st := []byte(n.Styles)
			st[2] = '-'
			n.Styles = string(st)
		} else if n.Kind == "func" && g.chance(0.3) {
			n.Styles = "--" + n.Styles[2:] // routing-only: just a post function
			if n.Styles[2] == '-' {
				n.Styles = "--R"
			}
		}
		n.Visits[0].Post.Action = action
		if hasPhase(n, 2) && g.chance(0.1) {
			// post fails with a typed-nil error: a failure like any other (no success to report an action for)
			n.Visits[0].Post.Fail = "typednil"
		}
		if hasPhase(n, 1) && g.chance(0.2) {
			// the exec result happens to be an (empty) value of the library's Action type: just a payload
			n.Visits[0].Exec = []Outcome{{Pay: "actempty"}}
		} else if n.Kind == "func" && n.style(1) == 'R' && n.style(2) == 'R' && g.chance(0.25) {
			// the exec function hands an error Result to post (nil error): still a successful run
			n.Visits[0].Exec = []Outcome{{Fail: "errres"}}
		} else if n.retryable() && hasPhase(n, 1) && n.config().Retries >= 2 && g.chance(0.4) {
			// the run succeeds on a later attempt: some attempts fail, then one succeeds
			k := 1 + g.r.IntN(n.config().Retries-1)
			n.Visits[0].Exec = nil
			for a := 0; a < k; a++ {
				n.Visits[0].Exec = append(n.Visits[0].Exec, Outcome{Fail: pick(g.r, failKinds)})
			}
			n.Visits[0].Exec = append(n.Visits[0].Exec, Outcome{Pay: g.pay()})
		} else if n.hasFallback() && hasPhase(n, 1) && g.chance(0.4) {
			// the run succeeds through the fallback: every attempt fails, the fallback recovers
			b := 1
			if n.retryable() {
				b = n.config().Retries
			}
			n.Visits[0].Exec = nil
			for a := 0; a < b; a++ {
				n.Visits[0].Exec = append(n.Visits[0].Exec, Outcome{Fail: pick(g.r, failKinds)})
			}
			n.Visits[0].Fb = &Outcome{Pay: g.pay()}
		}
		return n
	}
}

func genC18(prop, tier string, r *rand.Rand) *Scn {
	g := newGen(prop, tier, r)
	g.failP = 0
	if r.IntN(8) == 0 {
		// a polling step: connected to itself on the default action, it reports the
		// empty action round after round and something else in the end. The default
		// connection is followed every time, also when it leads where we are
		g.kinds = []string{"base", "plain", "func", "retry"}
		rounds := 2 + r.IntN(3)
		n := g.leaf(rounds)
		if hasPhase(n, 2) {
			for v := range n.Visits {
				n.Visits[v].Prep.Fail = ""
				if len(n.Visits[v].Exec) > 0 {
					n.Visits[v].Exec = []Outcome{{Pay: g.pay()}}
				}
				n.Visits[v].Post = Outcome{Action: pick(r, []string{"", "", "default"})}
			}
			n.Visits[rounds-1].Post = Outcome{Action: "a"}
			w := g.leaf(1)
			f := &NodeSpec{ID: len(g.sc.Nodes), Kind: "flow", Start: n.ID}
			f.Conns = []Conn{{From: n.ID, Action: "default", To: n.ID}, {From: n.ID, Action: "a", To: w.ID}}
			if r.IntN(2) == 0 {
				// ... entered from a step that also ended on the default action
				pre := g.leaf(1)
				pre.Visits[0].Prep.Fail = ""
				if len(pre.Visits[0].Exec) > 0 {
					pre.Visits[0].Exec = []Outcome{{Pay: g.pay()}}
				}
				pre.Visits[0].Post = Outcome{Action: ""}
				f.ID = len(g.sc.Nodes)
				f.Start = pre.ID
				f.Conns = append(f.Conns, Conn{From: pre.ID, Action: "default", To: n.ID})
			}
			g.sc.Nodes = append(g.sc.Nodes, f)
			g.sc.Root = f.ID
			g.sc.Runs = 1
			return g.sc
		}
		g = newGen(prop, tier, r)
		g.failP = 0
	}
	// custom actions include blank-looking ones: only the empty action is normalised
	action := pick(r, []string{"", "", "", "default", "a", "b", " ", "\t\n", " a"})
	n := g.anyNode(action)
	x := n.ID
	if g.sc.Nodes[g.sc.Root].Kind == "flow" {
		x = g.sc.Root // rootBatch sometimes wraps the batch in a flow: use that as the node
	}
	switch r.IntN(3) {
	case 0: // run directly
		g.sc.Root = x
	case 1: // a flow used as a node around it
		inner := &NodeSpec{ID: len(g.sc.Nodes), Kind: "flow", Start: x}
		if r.IntN(2) == 0 { // ... which ends through an explicit nil connection
			inner.Conns = []Conn{{From: x, Action: normAction(action), To: -1}}
		}
		g.sc.Nodes = append(g.sc.Nodes, inner)
		g.sc.Root = inner.ID
		x = inner.ID
	}
	if r.IntN(3) > 0 {
		// as a routed step: the default connection must be followed to the witness
		w := g.leaf(1)
		other := g.leaf(1)
		f := &NodeSpec{ID: len(g.sc.Nodes), Kind: "flow", Start: x}
		f.Conns = []Conn{{From: x, Action: "default", To: w.ID}, {From: x, Action: "a", To: other.ID}, {From: x, Action: "b", To: other.ID}}
		if r.IntN(2) == 0 {
			f.Conns = append(f.Conns, Conn{From: x, Action: "", To: other.ID}) // a connection on the empty action must never be taken
		}
		g.sc.Nodes = append(g.sc.Nodes, f)
		g.sc.Root = f.ID
	}
	if r.IntN(5) == 0 {
		// the context is cancelled from inside one of the node's callbacks: the
		// run may fail with the context's error, but a success is still a success
		g.sc.Ctx.Kind = "cancel"
		vs := &n.Visits[0]
		switch {
		case n.Kind == "batch" && len(vs.Items) > 0 && r.IntN(3) > 0:
			vs.Items[r.IntN(len(vs.Items))].Exec[0].Cancel = true
		case hasPhase(n, 2) && r.IntN(2) == 0:
			vs.Post.Cancel = true
		case n.Kind != "batch" && hasPhase(n, 1):
			vs.Exec[len(vs.Exec)-1].Cancel = true
		default:
			vs.Prep.Cancel = true
		}
	}
	return g.sc
}

// addDecoys: for some function / batch nodes, attach a function of the other
// style first and replace it by the real one (last setting wins).
func addDecoys(sc *Scn, r *rand.Rand) {
	for _, n := range sc.Nodes {
		if (n.Kind != "func" && n.Kind != "batch") || n.Hand || n.OptPost || r.IntN(3) != 0 {
			continue
		}
		d := ""
		if n.Kind == "func" {
			for i, ph := range []byte("pex") {
				if n.style(i) != '-' && r.IntN(2) == 0 {
					d += string(ph)
				}
			}
		} else if n.style(1) != '-' && r.IntN(2) == 0 {
			d += "e"
		}
		if n.HasFb && r.IntN(2) == 0 {
			d += "f"
		}
		n.Decoy = d
		n.DecoyForm = pick(r, []string{"opt", "builder"})
	}
}

func genC17(prop, tier string, r *rand.Rand) *Scn {
	sc := genC17base(prop, tier, r)
	if r.IntN(8) == 0 {
		// a Result-style prep function answering with an error Result (and a nil
		// Go error): exec and post are told the same, nothing is wrapped twice
		for _, n := range sc.Nodes {
			if n.Kind == "func" && n.style(0) == 'R' && hasPhase(n, 0) && n.FnForm != "hand" {
				for v := range n.Visits {
					if n.Visits[v].Prep.Fail == "" && r.IntN(2) == 0 {
						n.Visits[v].Prep.Pay = "erresult"
					}
				}
			}
		}
	}
	addDecoys(sc, r)
	if r.IntN(6) == 0 {
		// payloads are handed on unchanged also when the context ends meanwhile:
		// whatever a callback returned normally is what the next phase receives
		if n := sc.Nodes[sc.Root]; n.Kind == "batch" && len(n.Visits[0].Items) > 0 {
			sc.Ctx.Kind = "cancel"
			sc.Runs = 1
			if r.IntN(3) == 0 {
				sc.Canceller = &Canceller{Kind: "ticket"}
			} else {
				it := &n.Visits[0].Items[r.IntN(len(n.Visits[0].Items))]
				it.Exec[r.IntN(len(it.Exec))].Cancel = true
			}
		} else {
			withCancellation(sc, r)
		}
	}
	return sc
}

func genC17base(prop, tier string, r *rand.Rand) *Scn {
	return bounded(func() *Scn {
		g := newGen(prop, tier, r)
		g.kinds = []string{"func"}
		g.failP = 0.25
		g.noErrRes = false
		g.sc.Faulty = true
		switch r.IntN(4) {
		case 0, 1:
			n := g.leaf(1 + r.IntN(2))
			g.sc.Root = n.ID
			g.sc.Runs = len(n.Visits)
		case 2:
			g.sc.Root = g.tree(1+r.IntN(4), 1+r.IntN(2), 0.25)
		default:
			if r.IntN(8) == 0 {
				return reentrantBatch(g, r) // what post receives is what this run's execs returned
			}
			conc := r.IntN(4)
			// payloads are handed on unchanged in either error mode (for every item that is processed)
			n := g.rootBatch(batchSize(r, 8), 1+r.IntN(3), 0, conc, r.IntN(3) == 0, []string{"results", "anys", "ints", "strings", "single"})
			g.timing(n)
			if n.PrepShape == "anys" && n.style(1) == 'A' && n.config().Conc <= 0 && !n.config().Stop && r.IntN(2) == 0 {
				// untyped nils in the item list: items like any other (attributed by call order)
				for i := range n.Visits[0].Items {
					if r.IntN(3) == 0 {
						n.Visits[0].Items[i] = Item{Pay: "nilitem", Exec: []Outcome{{Pay: "int"}}}
					}
				}
			}
		}
		return g.sc
	})
}

func genC19(prop, tier string, r *rand.Rand) *Scn {
	g := newGen(prop, tier, r)
	g.failP = 0.3
	g.sc.Faulty = true
	var n *NodeSpec
	isBatch := r.IntN(2) == 0
	if isBatch {
		n = g.rootBatch(batchSize(r, 8), 1, 0, 0, false, nil)
		n.Hand = false
		n.PrepShape = ""
		n.FnForm = pick(r, []string{"opt", "builder"})
		n.HasFb = r.IntN(3) == 0
	} else {
		g.kinds = []string{"func", "func", "base"}
		n = g.leaf(1)
		g.sc.Root = n.ID
	}
	// a sequence of up to 6 settings; later ones override earlier ones
	n.Settings = nil
	k := r.IntN(7)
	for i := 0; i < k; i++ {
		s := Setting{Form: pick(r, []string{"opt", "builder"})}
		if n.Kind == "base" {
			s.Form = "opt"
		}
		switch r.IntN(4) {
		case 0:
			s.Param, s.Val = "retries", 1+r.IntN(5)
			if r.IntN(4) == 0 {
				s.Param, s.Val, s.Form = "retries+", 1, "opt" // a relative user-written option: applied once
			} else if r.IntN(6) == 0 {
				// a non-positive count: the property does not say what it means, only that
				// both styles store and treat it alike (judged by the getters and the
				// canonically configured twin, never against the model; see nonPositiveRetries)
				s.Val = -r.IntN(2)
			}
		case 1:
			s.Param, s.Val = "wait", pick(r, []int{0, 10, 20, 50})
		case 2:
			s.Param, s.Val = "conc", r.IntN(6)-1
		default:
			s.Param, s.Val = "stop", r.IntN(2)
		}
		n.Settings = append(n.Settings, s)
	}
	n.Settings = orderSettings(n.Settings)
	reconf := r.IntN(5) < 2
	if reconf {
		// the same object is re-configured after its first run and run again
		for i := 1 + r.IntN(3); i > 0; i-- {
			s := Setting{Form: pick(r, []string{"opt", "builder"})}
			if n.Kind == "base" {
				s.Form = "opt"
			}
			switch r.IntN(4) {
			case 0:
				s.Param, s.Val = "retries", 1+r.IntN(5)
			case 1:
				s.Param, s.Val = "wait", pick(r, []int{0, 10, 20, 50})
			case 2:
				s.Param, s.Val = "conc", r.IntN(5)
			default:
				s.Param, s.Val = "stop", r.IntN(2)
			}
			n.Reconf = append(n.Reconf, s)
		}
		g.sc.Runs = 2
	}
	cfg := n.config()
	// probe scripts that make the configuration observable
	vs := &n.Visits[0]
	if isBatch {
		for i := range vs.Items {
			vs.Items[i].Exec = g.execScript(cfg.Retries, false)
			vs.Items[i].Fb = nil
			if n.HasFb && g.chance(0.6) {
				fo := g.outcome()
				vs.Items[i].Fb = &fo
			}
		}
		g.timing(n)
		if n.style(1) == 'A' && cfg.Conc <= 0 && n.configRun(1).Conc <= 0 && r.IntN(4) == 0 {
			// error-Result items through an Any-style exec function (it sees nil):
			// option and builder form of the function must treat them alike
			for i := range vs.Items {
				if r.IntN(3) == 0 {
					vs.Items[i] = Item{Pay: "erritem", Exec: []Outcome{{Pay: "int"}}}
				}
			}
		}
		if cfg.Conc >= 2 && !cfg.Stop && r.IntN(3) == 0 {
			for i := range vs.Items {
				for a := range vs.Items[i].Exec {
					vs.Items[i].Exec[a].Gate = ""
					vs.Items[i].Exec[a].SleepMs = 0
				}
				vs.Items[i].Exec[0].Gate = "barrier"
			}
		}
		if cfg.Conc >= 2 && cfg.Stop && r.IntN(3) == 0 {
			// the error mode is unrelated to the concurrency: with no failing item a
			// stop-mode batch runs its items as concurrently as a continue-mode one
			for i := range vs.Items {
				if vs.Items[i].Pay == "erritem" {
					vs.Items[i].Pay = "int"
				}
				vs.Items[i].Exec = []Outcome{{Pay: g.pay(), Gate: "barrier"}}
				vs.Items[i].Fb = nil
			}
		}
	} else {
		vs.Exec = g.execScript(cfg.Retries, false)
	}
	if reconf {
		// second visit: a fresh probe sized for the new configuration
		b, _ := json.Marshal(n.Visits[0])
		var v2 Visit
		json.Unmarshal(b, &v2)
		cfg2 := n.configRun(1)
		barrier2 := r.IntN(2) == 0 // all items or none: a barrier needs every item to start
		if isBatch {
			for i := range v2.Items {
				if v2.Items[i].Pay == "erritem" && n.style(1) == 'A' {
					continue // attributed to its item by call order: one successful call
				}
				v2.Items[i].Exec = g.execScript(cfg2.Retries, false)
				if cfg2.Conc >= 2 && !cfg2.Stop && barrier2 {
					// the configured concurrency must be usable: executions park until min(c, n) have started
					v2.Items[i].Exec[0].Gate = "barrier"
					v2.Items[i].Exec[0].SleepMs = 0
				}
				if cfg2.Conc >= 2 && cfg2.Stop && barrier2 {
					v2.Items[i].Exec = []Outcome{{Pay: g.pay(), Gate: "barrier"}}
					v2.Items[i].Fb = nil
				}
			}
		} else {
			v2.Exec = g.execScript(cfg2.Retries, false)
		}
		n.Visits = append(n.Visits[:1], v2)
	}
	addDecoys(g.sc, r)
	return g.sc
}

// canonical: the same scenario configured the plain way: constructor options
// only, one (the last) value per parameter.
func canonical(sc *Scn) *Scn {
	c := sc.clone()
	for _, n := range c.Nodes {
		if n.Kind == "flow" || n.Hand {
			continue
		}
		last := map[string]int{}
		var order []string
		for _, s := range n.Settings {
			if s.Param == "retries+" { // a relative option: the canonical form names the value it arrives at
				cur, ok := last["retries"]
				if !ok {
					cur = 1
				}
				s.Param, s.Val = "retries", cur+s.Val
			}
			if _, ok := last[s.Param]; !ok {
				order = append(order, s.Param)
			}
			last[s.Param] = s.Val
		}
		n.Settings = nil
		for _, p := range order {
			n.Settings = append(n.Settings, Setting{Param: p, Form: "opt", Val: last[p]})
		}
		if n.Kind == "func" || n.Kind == "batch" {
			n.FnForm = "opt"
		}
		n.Decoy, n.DecoyForm = "", ""
		lastR := map[string]int{}
		var orderR []string
		for _, s := range n.Reconf {
			if _, ok := lastR[s.Param]; !ok {
				orderR = append(orderR, s.Param)
			}
			lastR[s.Param] = s.Val
		}
		n.Reconf = nil
		for _, p := range orderR {
			n.Reconf = append(n.Reconf, Setting{Param: p, Form: "opt", Val: lastR[p]})
		}
	}
	return c
}

func genC20(prop, tier string, r *rand.Rand) *Scn {
	g := newGen(prop, tier, r)
	g.failP = 0.5
	g.sleepP = 0.2
	g.sc.Faulty = true
	g.kinds = []string{"base", "retry", "retryfb", "func", "ovr"}
	budget := 2 + r.IntN(4)
	wait := pick(r, []int{10, 20, 30, 40, 50, 3600000})
	cancelInWait := r.IntN(3) == 0
	if cancelInWait {
		wait = 3600000
		g.sleepP = 0
	}
	g.waits = []int{wait}
	var n *NodeSpec
	if !cancelInWait && r.IntN(8) == 0 {
		// a self-loop in a flow re-runs the node at once: the configured wait
		// belongs between a failed attempt and the next one, nowhere else
		for {
			n = g.leaf(2 + r.IntN(2))
			if n.config().Retries >= 2 {
				break
			}
			g.sc.Nodes = g.sc.Nodes[:len(g.sc.Nodes)-1]
		}
		n.Settings = []Setting{{Param: "retries", Form: "opt", Val: budget}, {Param: "wait", Form: "opt", Val: pick(r, []int{10, 20, 50})}}
		for v := range n.Visits {
			n.Visits[v].Prep.Fail = ""
			n.Visits[v].Post = Outcome{Action: "again"}
			if g.chance(0.7) {
				n.Visits[v].Exec = []Outcome{{Pay: g.pay()}}
			}
		}
		n.Visits[len(n.Visits)-1].Post.Action = "done"
		f := &NodeSpec{ID: len(g.sc.Nodes), Kind: "flow", Start: n.ID, Conns: []Conn{{From: n.ID, Action: "again", To: n.ID}}}
		g.sc.Nodes = append(g.sc.Nodes, f)
		g.sc.Root = f.ID
		g.sc.Runs = 1
		return g.sc
	}
	if r.IntN(2) == 0 {
		for {
			n = g.leaf(1)
			if n.config().Retries >= 2 {
				break
			}
			g.sc.Nodes = g.sc.Nodes[:len(g.sc.Nodes)-1]
		}
		n.Settings = []Setting{{Param: "retries", Form: "opt", Val: budget}, {Param: "wait", Form: "opt", Val: wait}}
		n.Visits[0].Exec = g.execScript(budget, false)
		if cancelInWait && len(n.Visits[0].Exec) < 2 {
			n.Visits[0].Exec = append([]Outcome{{Fail: "sentinel"}}, n.Visits[0].Exec...)
		}
		g.sc.Root = n.ID
	} else {
		conc := r.IntN(4)
		n = g.rootBatch(1+r.IntN(6), budget, wait, conc, r.IntN(3) == 0, nil) // waits hold per item in either error mode
		for i := range n.Visits[0].Items {
			n.Visits[0].Items[i].Exec = g.execScript(budget, false)
		}
		if cancelInWait {
			it := &n.Visits[0].Items[r.IntN(len(n.Visits[0].Items))]
			if len(it.Exec) < 2 {
				it.Exec = append([]Outcome{{Fail: "sentinel"}}, it.Exec...)
			}
		}
	}
	if cancelInWait {
		// find a retry wait in the model's timeline and cancel strictly inside it
		mod := runModelUncancelled(g.sc)
		var gaps [][2]int64
		scan := func(evs []MEv) {
			for i := 1; i < len(evs); i++ {
				if evs[i].Kind == "exec_start" && evs[i].A > 1 && evs[i-1].Kind == "exec_end" && evs[i].T >= 0 && evs[i].T > evs[i-1].T {
					gaps = append(gaps, [2]int64{evs[i-1].T, evs[i].T})
				}
			}
		}
		mr := mod.Runs[0]
		scan(mr.Main)
		for _, mb := range mr.Batches {
			for _, mi := range mb.Items {
				scan(mi.Lane)
			}
		}
		at := int64(1000 * (1 + r.IntN(1000))) // concurrent batch: any instant inside the first hour
		if len(gaps) > 0 {
			gp := pick(r, gaps)
			at = gp[0]/1000 + 1 + r.Int64N((gp[1]-gp[0])/1000-1)
		}
		if at%10000 == 0 {
			at++
		}
		if r.IntN(2) == 0 {
			g.sc.Ctx.Kind = "cancel"
			g.sc.Canceller = &Canceller{Kind: "time", AtUs: at}
		} else {
			// the same instant reached by a deadline (context.WithDeadline) instead of cancel()
			g.sc.Ctx = CtxSpec{Kind: "deadline", DeadlineUs: at}
		}
	}
	return g.sc
}

func genC10(prop, tier string, r *rand.Rand) *Scn {
	sc := genC10base(prop, tier, r)
	wrapped := false
	if r.IntN(5) == 0 && !hasNested(sc) {
		// embedded flows used through a type that embeds *flyt.Flow and has a
		// Prep and a Post of its own (they leave enter/leave marks in the store
		// and Post names the action): such a flow is a node of its parent like
		// any other - its own lifecycle steps run around the embedded walk
		for _, n := range sc.Nodes {
			if n.Kind == "flow" && n.ID != sc.Root && r.IntN(2) == 0 {
				n.Wrap = pick(r, []string{"a", "b", "default", "ab"})
				wrapped = true
			}
		}
	}
	if r.IntN(6) == 0 && !wrapped {
		// nested and flattened arrangement also agree on where a cancelled run stops
		cancelInPlainCallback(sc, r)
	}
	return sc
}

// cancelInPlainCallback: the context is cancelled from inside a callback of a
// non-batch node on the executed path (batch nodes may be members: one that
// comes later is never started, one that came earlier has run undisturbed).
func cancelInPlainCallback(sc *Scn, r *rand.Rand) {
	sc.Runs = 1
	var starts []MEv
	for _, e := range startEvents(runModelUncancelled(sc).Runs[0]) {
		if sc.Nodes[e.N].Kind != "batch" {
			starts = append(starts, e)
		}
	}
	for try := 0; try < 8 && len(starts) > 0; try++ {
		if o := sc.outcomeAt(pick(r, starts)); o != nil {
			o.Cancel = true
			sc.Ctx.Kind = "cancel"
			return
		}
	}
}

func genC10base(prop, tier string, r *rand.Rand) *Scn {
	if r.IntN(12) == 0 {
		// an embedded flow is run again, on a scratch store, from inside one of
		// its own nodes (a recursive pipeline): the outer pass goes on with its
		// parent's store, and what the scratch pass wrote stays in the scratch store
		g := newGen(prop, tier, r)
		g.failP = 0
		g.kinds = []string{"base", "plain", "func", "retry"}
		a, b, c := g.leaf(2), g.leaf(2), g.leaf(1)
		for _, n := range []*NodeSpec{a, b, c} {
			for v := range n.Visits {
				n.Visits[v].Post = Outcome{Action: "default"}
				n.Visits[v].Prep.Fail = ""
				if len(n.Visits[v].Exec) > 0 {
					n.Visits[v].Exec = []Outcome{{Pay: g.pay()}}
				}
			}
		}
		inner := &NodeSpec{ID: len(g.sc.Nodes), Kind: "flow", Start: a.ID, Conns: []Conn{{From: a.ID, Action: "default", To: b.ID}}}
		g.sc.Nodes = append(g.sc.Nodes, inner)
		outer := &NodeSpec{ID: len(g.sc.Nodes), Kind: "flow", Start: inner.ID, Conns: []Conn{{From: inner.ID, Action: "default", To: c.ID}}}
		g.sc.Nodes = append(g.sc.Nodes, outer)
		who := pick(r, []*NodeSpec{a, b})
		if hasPhase(who, 1) && len(who.Visits[0].Exec) > 0 {
			who.Visits[0].Exec[0].Nested = inner.ID + 1
			who.Visits[0].Exec[0].NestedStore = r.IntN(3) > 0
		}
		g.sc.Root = outer.ID
		g.sc.Runs = 1
		return g.sc
	}
	if r.IntN(100) == 0 {
		// "at any nesting depth": a chain of flows nested a hundred and more deep
		// around two leaves (the inner one's action routes the innermost flow)
		g := newGen(prop, tier, r)
		g.failP = 0
		a, b := g.leaf(1), g.leaf(1)
		a.Visits[0].Post = Outcome{Action: "a"}
		b.Visits[0].Post = Outcome{Action: "b"}
		inner := &NodeSpec{ID: len(g.sc.Nodes), Kind: "flow", Start: a.ID, Conns: []Conn{{From: a.ID, Action: "a", To: b.ID}}}
		g.sc.Nodes = append(g.sc.Nodes, inner)
		cur := inner.ID
		for d := 60 + r.IntN(100); d > 0; d-- {
			f := &NodeSpec{ID: len(g.sc.Nodes), Kind: "flow", Start: cur}
			g.sc.Nodes = append(g.sc.Nodes, f)
			cur = f.ID
		}
		g.sc.Root = cur
		g.sc.Runs = 1
		return g.sc
	}
	return bounded(func() *Scn {
		g := newGen(prop, tier, r)
		faultfree(g, r)
		g.sleepP = 0.05
		g.selfReach = true
		depth := 2 + r.IntN(3)
		g.sc.Root = g.tree(2+r.IntN(6), depth, 0.1)
		g.sc.Runs = 1 + r.IntN(2)
		if r.IntN(4) == 0 {
			g.sc.Via = "flowrun"
		}
		g.lateConnects()
		g.dynamicConnects()
		return g.sc
	})
}

func genC11(prop, tier string, r *rand.Rand) *Scn {
	g := newGen(prop, tier, r)
	g.failP = 0.3
	g.sc.Faulty = true
	conc := r.IntN(5)
	stop := r.IntN(2) == 0
	budget := 1 + r.IntN(3)
	wait := pick(r, []int{0, 0, 10, 3600000})
	ni := 1 + r.IntN(16)
	if r.IntN(2) == 0 {
		ni = 1 + r.IntN(5)
	}
	n := g.rootBatch(ni, budget, wait, conc, stop, []string{"results", "anys"})
	if r.IntN(3) == 0 {
		g.timing(n)
	} else {
		for i := range n.Visits[0].Items {
			for a := range n.Visits[0].Items[i].Exec {
				n.Visits[0].Items[i].Exec[a].SleepMs = 0
			}
		}
	}
	if r.IntN(6) == 0 {
		// a post that fails: called once all the same - a cancelled context is no
		// licence to call it again
		n.Visits[0].Post.Fail = pick(r, failKinds)
	}
	g.sc.Ctx.Kind = "cancel"
	switch r.IntN(7) {
	case 6:
		// a deadline at an off-grid instant of the first simulated second (or hour, with 1 h waits)
		at := int64(1000 * (1 + r.IntN(200)))
		if wait >= 3600000 && r.IntN(2) == 0 {
			at = int64(1000 * (1 + r.IntN(3000000)))
		}
		if at%10000 == 0 {
			at++
		}
		g.sc.Ctx = CtxSpec{Kind: "deadline", DeadlineUs: at}
		if r.IntN(2) == 0 { // give the deadline something to land in
			for i := range n.Visits[0].Items {
				for a := range n.Visits[0].Items[i].Exec {
					n.Visits[0].Items[i].Exec[a].SleepMs = 10 * r.IntN(8)
				}
			}
		}
	case 0:
		g.sc.Ctx.Kind = "precancel"
	case 1, 2:
		g.sc.Canceller = &Canceller{Kind: "ticket"}
	default:
		vs := &n.Visits[0]
		i := r.IntN(len(vs.Items))
		a := 1 + r.IntN(len(vs.Items[i].Exec))
		o := g.sc.outcomeAt(MEv{Kind: "exec_start", N: n.ID, V: 0, A: a, I: i + 1})
		o.Cancel = true
	}
	return g.sc
}
