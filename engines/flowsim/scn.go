// Package flowsim simulates flyt nodes, flows and batch nodes with scripted
// callbacks under the seeded scheduler and the fake clock, and compares what
// happened with a small reference model. DESIGN.md sections 3.1 and 4.
package flowsim

import "encoding/json"

// Outcome scripts one callback invocation.
type Outcome struct {
	Fail    string `json:"fail,omitempty"`   // "" ok | sentinel | wrapped | custom | errres (exec: error-Result, nil error)
	Pay     string `json:"pay,omitempty"`    // payload kind when ok: int str float map slice ptr struct nil ("" = int)
	SleepMs int    `json:"sleep,omitempty"`  // simulated milliseconds spent inside the callback
	Gate    string `json:"gate,omitempty"`   // failseen | barrier | last
	Cancel  bool   `json:"cancel,omitempty"` // call cancel() from inside the callback
	Boost   bool   `json:"boost,omitempty"`  // give the calling task strict priority from here on (C09 "failure handled first")
	Action  string `json:"action,omitempty"` // post only
	// Both: a failing exec / fallback returns a value together with its error
	// (the error decides: the value must be ignored).
	Both bool `json:"both,omitempty"`
	// Conn: the callback itself calls Connect on a flow while it runs.
	Conn *DynConn `json:"conn,omitempty"`
	// Nested (exec of a batch item): the callback runs node Nested-1 (a batch
	// node of its own) with the context it was given, and waits for it.
	Nested int `json:"nested,omitempty"`
	// NestedStore: the nested run gets a scratch store of its own instead of the run's store.
	NestedStore bool `json:"nested_store,omitempty"`
	// Panic (exec): the callback panics with a non-error value instead of returning.
	Panic bool `json:"panic,omitempty"`
}

// DynConn is a Connect call made from inside a callback.
type DynConn struct {
	Flow   int    `json:"flow"`
	From   int    `json:"from"`
	Action string `json:"action"`
	To     int    `json:"to"`
}

// Item scripts one batch item.
type Item struct {
	// Pay "erritem": prep hands this item over as an error Result; "nilitem": an untyped nil in a []any item list
	// (NewErrorResult); it is still an item and must be processed like any other.
	Pay  string    `json:"pay,omitempty"`
	Exec []Outcome `json:"exec,omitempty"` // per attempt; the last entry repeats
	Fb   *Outcome  `json:"fb,omitempty"`   // fallback outcome when invoked (node must have a fallback)
	// DupOf: this item is the very same value as item DupOf-1 of the visit (an
	// equal scalar at a second position): still an item of its own. Sequential
	// batches with one attempt per item only (calls are attributed by order).
	DupOf int `json:"dup_of,omitempty"`
}

// Visit scripts one visit of a node.
type Visit struct {
	Prep  Outcome   `json:"prep"`
	Exec  []Outcome `json:"exec,omitempty"`
	Fb    *Outcome  `json:"fb,omitempty"`
	Post  Outcome   `json:"post"`
	Items []Item    `json:"items,omitempty"`
}

type Setting struct {
	Param string `json:"p"` // retries | wait | conc | stop
	Form  string `json:"f"` // opt | builder
	Val   int    `json:"v"` // wait in ms; stop: 1 = stop, 0 = continue
	// Plain: the constructor option is handed over as an unnamed func(*BaseNode)
	// value (a preset, a literal, an option that went through a variable of that
	// type) instead of the named NodeOption type
	Plain bool `json:"plain,omitempty"`
	// Nest: while this constructor option is being applied it builds another,
	// unrelated node (a factory that derives helper nodes). That construction is
	// none of this node's business.
	Nest bool `json:"nest,omitempty"`
}

type Conn struct {
	From   int    `json:"from"`
	Action string `json:"action"`
	To     int    `json:"to"` // -1 = nil
}

// NodeSpec describes one node (leaf, batch or flow).
type NodeSpec struct {
	// Wrap (flow only): the flow is used through a user type that embeds
	// *flyt.Flow and overrides Post, returning this action: what the parent
	// routes on is what that Post returns.
	Wrap string `json:"wrap,omitempty"`
	ID   int    `json:"id"`
	Kind string `json:"kind"` // base plain retry fb retryfb func batch flow zst (pointer to a zero-size type) ovr (embeds BaseNode, overrides the retry getters) val (a value-type node; the first one of a scenario is the zero value of its type) deco (a decorator without retry getters whose Unwrap() returns a node with a budget of 3)

	// func / batch: how each phase function is given: R (Result style), A (Any
	// style), - (not set). Three characters: prep, exec, post.
	Styles string `json:"styles,omitempty"`
	HasFb  bool   `json:"has_fb,omitempty"` // a fallback is provided (base: ExecFallback overridden)
	// func / batch: how functions are attached: opt (constructor options) | builder (chained methods)
	FnForm   string    `json:"fn_form,omitempty"`
	Settings []Setting `json:"settings,omitempty"`
	// Reconf is applied to the built node between the first and the second run
	// (option functions applied to the embedded BaseNode, or builder methods).
	Reconf []Setting `json:"reconf,omitempty"`

	// func / batch: phases (letters of "pexf": prep, exec, post, fallback) for
	// which another function - of the other style - is attached first and then
	// replaced by the real one; the replaced function must never be called
	// (last setting wins). DecoyForm: how the replaced one is attached.
	Decoy     string `json:"decoy,omitempty"`
	DecoyForm string `json:"decoy_form,omitempty"`

	// batch
	// Sibling: the constructor is called twice with the very same option slice
	// (a template re-used for several nodes); the node under test is the second.
	Sibling bool `json:"sibling,omitempty"`
	Hand      bool   `json:"hand,omitempty"`       // BatchNodeBuilder{BatchNode{CustomNode}} composed by hand: prep may return anything
	PrepShape string `json:"prep_shape,omitempty"` // results | anys | ints | strings | single | nil

	// batch: the post function is given as a generic function option
	// (flyt.WithPostFunc / WithPostFuncAny passed to NewBatchNode) instead of the
	// batch builder's WithPostFunc. Whether such a function is honoured is not
	// fixed by any property; C18 only demands that the action is normalised
	// either way, so the oracle accepts both readings.
	OptPost bool `json:"opt_post,omitempty"`

	// flow
	Start int    `json:"start,omitempty"`
	Conns []Conn `json:"conns,omitempty"`
	// LateConns are Connect calls made on the flow object after its first run
	// (they take part in the routing of every later run).
	LateConns []Conn `json:"late_conns,omitempty"`

	Visits []Visit `json:"visits,omitempty"`
}

type CtxSpec struct {
	Kind       string `json:"kind,omitempty"`        // "" background | cancel | deadline | precancel | predeadline
	DeadlineUs int64  `json:"deadline_us,omitempty"` // offset from the start of the run; with kind "cancel": a deadline the context carries besides (later than the explicit cancel)
	// Impl: which Context implementation carries the cancellation. "" standard
	// WithCancel/WithDeadline | cause (WithCancelCause / WithDeadlineCause with a
	// custom cause: Err() is still Canceled / DeadlineExceeded) | custom (a
	// hand-written Context with its own Done/Err on top of a live standard one)
	Impl string `json:"impl,omitempty"`
}

type Canceller struct {
	Kind string `json:"kind"` // ticket (scheduler decides) | time (sleeps AtUs on the fake clock)
	AtUs int64  `json:"at_us,omitempty"`
}

// Scn is one scenario.
type Scn struct {
	Prop      string      `json:"prop"`
	Nodes     []*NodeSpec `json:"nodes"`
	Root      int         `json:"root"`
	Runs      int         `json:"runs,omitempty"`
	Via       string      `json:"via,omitempty"` // "" flyt.Run | flowrun (Flow.Run)
	// ReuseKept: the batch post keeps the result list it was given and the next
	// batch prep builds its item list in that slice's storage (a caller recycling
	// a buffer that, after post has returned, is the caller's).
	ReuseKept bool `json:"reuse_kept,omitempty"`
	// NilStore: the run is given a nil *SharedStore; that (and nothing the
	// framework makes up) is what prep and post receive.
	NilStore bool `json:"nil_store,omitempty"`
	Ctx       CtxSpec     `json:"ctx,omitempty"`
	Canceller *Canceller  `json:"canceller,omitempty"`
	Twin      string      `json:"twin,omitempty"` // C19/C10/C17 differential: canonical | flat | otherstyle
	// OptPostIgnored: model reading in which a generic post option on a batch node is not used
	OptPostIgnored bool `json:"-"`
	Faulty         bool `json:"faulty,omitempty"`
}

func (sc *Scn) clone() *Scn {
	b, _ := json.Marshal(sc)
	var c Scn
	json.Unmarshal(b, &c)
	return &c
}

func decode(b []byte) (any, error) {
	var sc Scn
	err := json.Unmarshal(b, &sc)
	return &sc, err
}

// effective configuration: last setting wins, else the documented default
type config struct {
	Retries int
	WaitMs  int
	Conc    int
	Stop    bool
}

func (n *NodeSpec) config() config { return n.configRun(0) }

// configRun: the configuration in force during run r (Reconf applies from run 1 on).
func (n *NodeSpec) configRun(r int) config {
	c := config{Retries: 1}
	all := n.Settings
	if r > 0 {
		all = append(append([]Setting(nil), n.Settings...), n.Reconf...)
	}
	for _, s := range all {
		switch s.Param {
		case "retries":
			c.Retries = s.Val
		case "retries+":
			c.Retries += s.Val
		case "wait":
			c.WaitMs = s.Val
		case "conc":
			c.Conc = s.Val
		case "stop":
			c.Stop = s.Val == 1
		}
	}
	return c
}

// retryable: does the framework see retry settings on this kind?
func (n *NodeSpec) retryable() bool {
	switch n.Kind {
	case "plain", "fb", "zst", "val", "deco":
		return false
	}
	return true
}

// hasFallback: is there a user fallback whose outcome is scripted?
func (n *NodeSpec) hasFallback() bool {
	switch n.Kind {
	case "plain", "retry", "zst", "val", "deco":
		return false
	case "fb", "retryfb":
		return true
	}
	return n.HasFb
}

func (n *NodeSpec) visit(v int) *Visit {
	if len(n.Visits) == 0 {
		return &Visit{}
	}
	if v >= len(n.Visits) {
		v = len(n.Visits) - 1
	}
	return &n.Visits[v]
}

func attemptOutcome(list []Outcome, a int) Outcome { // a from 1
	if len(list) == 0 {
		return Outcome{}
	}
	if a > len(list) {
		a = len(list)
	}
	return list[a-1]
}

func (n *NodeSpec) style(i int) byte {
	if len(n.Styles) != 3 {
		return 'R'
	}
	return n.Styles[i]
}

// outcomeAt returns the scripted outcome behind a model event (a *_start
// event), materialising the "last entry repeats" lists so that changing it
// affects exactly that invocation. nil when the invocation is unscripted.
func (sc *Scn) outcomeAt(e MEv) *Outcome {
	n := sc.Nodes[e.N]
	if len(n.Visits) == 0 {
		n.Visits = []Visit{{}}
	}
	for len(n.Visits) <= e.V {
		b, _ := json.Marshal(n.Visits[len(n.Visits)-1])
		var c Visit
		json.Unmarshal(b, &c)
		n.Visits = append(n.Visits, c)
	}
	vs := &n.Visits[e.V]
	grow := func(list *[]Outcome, a int) *Outcome {
		if len(*list) == 0 {
			*list = []Outcome{{}}
		}
		for len(*list) < a {
			*list = append(*list, (*list)[len(*list)-1])
		}
		return &(*list)[a-1]
	}
	switch e.Kind {
	case "prep_start":
		return &vs.Prep
	case "post_start":
		return &vs.Post
	case "exec_start":
		if e.I > 0 {
			return grow(&vs.Items[e.I-1].Exec, e.A)
		}
		return grow(&vs.Exec, e.A)
	case "fb_start":
		if e.I > 0 {
			return vs.Items[e.I-1].Fb
		}
		return vs.Fb
	}
	return nil
}
