package flowsim

// Small-scope corpora: seed-independent prefaces replayed before the seeded
// search (reported separately in the evidence; not the deciding step).

func corpus(prop, tier string) []any {
	switch prop {
	case "C03":
		return corpusC03()
	case "C02":
		return corpusC02()
	}
	return nil
}

// corpusC03: every transition table of 3 nodes x 2 actions x {unconnected,
// nil, n0, n1, n2} (5^6 = 15625), nodes alternating their two actions per
// visit; tables whose path does not end within the visit cap are left out.
func corpusC03() []any {
	var out []any
	acts := []string{"a", "b"}
	for code := 0; code < 15625; code++ {
		sc := &Scn{Prop: "C03", Runs: 1}
		for i := 0; i < 3; i++ {
			n := &NodeSpec{ID: i, Kind: "plain"}
			for v := 0; v < 4; v++ {
				n.Visits = append(n.Visits, Visit{Prep: Outcome{Pay: "int"}, Exec: []Outcome{{Pay: "int"}}, Post: Outcome{Action: acts[(v+i)%2]}})
			}
			sc.Nodes = append(sc.Nodes, n)
		}
		f := &NodeSpec{ID: 3, Kind: "flow", Start: 0}
		c := code
		for from := 0; from < 3; from++ {
			for _, a := range acts {
				t := c % 5
				c /= 5
				switch t {
				case 0: // unconnected
				case 1:
					f.Conns = append(f.Conns, Conn{From: from, Action: a, To: -1})
				default:
					f.Conns = append(f.Conns, Conn{From: from, Action: a, To: t - 2})
				}
			}
		}
		sc.Nodes = append(sc.Nodes, f)
		sc.Root = 3
		if !runModel(sc).TooLong {
			out = append(out, sc)
		}
	}
	return out
}

// corpusC02: budgets 1..4 x every failure sequence (k failures then success,
// k = 0..N+1) x fallback absent / succeeding / failing x node kinds, as a
// single node and as the middle item of a sequential and a concurrent batch.
func corpusC02() []any {
	var out []any
	for budget := 1; budget <= 4; budget++ {
		for k := 0; k <= budget+1; k++ {
			var script []Outcome
			for i := 0; i < k; i++ {
				script = append(script, Outcome{Fail: []string{"sentinel", "wrapped", "custom"}[i%3]})
			}
			script = append(script, Outcome{Pay: "int"})
			for fb := 0; fb < 3; fb++ {
				var fo *Outcome
				switch fb {
				case 1:
					fo = &Outcome{Pay: "str"}
				case 2:
					fo = &Outcome{Fail: "sentinel"}
				}
				for _, kind := range []string{"base", "retry", "retryfb", "func", "plain", "fb"} {
					n := &NodeSpec{ID: 0, Kind: kind, HasFb: fb > 0, Styles: "RAR", FnForm: "builder"}
					if (kind == "retry" || kind == "plain") && fb > 0 {
						continue
					}
					if (kind == "retryfb" || kind == "fb") && fb == 0 {
						continue
					}
					n.Settings = []Setting{{Param: "retries", Form: "opt", Val: budget}}
					n.Visits = []Visit{{Prep: Outcome{Pay: "map"}, Exec: script, Fb: fo, Post: Outcome{Action: "a"}}}
					out = append(out, &Scn{Prop: "C02", Nodes: []*NodeSpec{n}, Runs: 1, Faulty: true})
				}
				for _, conc := range []int{0, 2} {
					b := &NodeSpec{ID: 0, Kind: "batch", Styles: "RRR", Hand: true, PrepShape: "results", HasFb: fb > 0}
					b.Settings = []Setting{{Param: "retries", Form: "opt", Val: budget}, {Param: "conc", Form: "opt", Val: conc}}
					items := []Item{{Pay: "int", Exec: []Outcome{{Pay: "int"}}}, {Pay: "ptr", Exec: script, Fb: fo}, {Pay: "str", Exec: []Outcome{{Fail: "sentinel"}}}}
					b.Visits = []Visit{{Items: items, Post: Outcome{Action: "default"}}}
					out = append(out, &Scn{Prop: "C02", Nodes: []*NodeSpec{b}, Runs: 1, Faulty: true})
				}
			}
		}
	}
	return out
}
