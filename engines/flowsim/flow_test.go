package flowsim

import (
	"testing"

	"verif.local/engines/eng"
	"verif.local/simrt"
)

type summary struct {
	Runs   []string `json:"runs"`
	Faulty bool     `json:"faulty"`
}

func execScn(t *testing.T, sc *Scn, cfg simrt.Config) (*simrt.Result, *Obs) {
	h := newHarness(sc)
	res := simrt.Run(t, cfg, h.runMain)
	return res, parseObs(res.Events)
}

func run(t *testing.T, prop string, x any, cfg simrt.Config) *eng.Outcome {
	sc := x.(*Scn)
	res, obs := execScn(t, sc, cfg)
	var mod *Model
	switch {
	case prop == "C05" || prop == "C11" || prop == "C20", (prop == "C06" || prop == "C08" || prop == "C09" || prop == "C17" || prop == "C01") && (sc.Ctx.Kind == "cancel" || sc.Ctx.Kind == "deadline") && hasBatch(sc):
		// these oracles relate the log to the uncancelled run
		mod = runModelUncancelled(sc)
	default:
		mod = runModel(sc)
	}
	o := &eng.Outcome{Res: res, Faults: map[string]int{}, Probes: map[string]int{}}
	c := &octx{prop: prop, sc: sc, mod: mod, obs: obs, res: res, out: o}
	if hasPanic(sc) {
		// judged on the log alone: the panic reaches the caller or becomes the item's error
		if o.V = c.terminated(); o.V == nil {
			o.V = c.panicRule()
		}
		return o
	}
	if prop == "C18" && sc.Ctx.Kind == "cancel" {
		// judged on the log alone (a cancelled batch is outside the exact model)
		o.V = oracle(c)
		if !mod.TooLong && !mod.Unpredicted {
			c.account()
		}
		return o
	}
	if mod.TooLong || mod.Unpredicted {
		// the generator bounds paths and keeps cancellations out of batches for
		// the exact oracles; a shrink candidate may not: not a verdict
		return o
	}
	o.V = oracle(c)
	if o.V != nil && hasOptPost(sc) {
		// second reading: the generic post option on a batch node is not used
		alt := sc.clone()
		alt.OptPostIgnored = true
		c2 := &octx{prop: prop, sc: alt, mod: runModel(alt), obs: obs, res: res, out: o}
		if oracle(c2) == nil {
			o.V = nil
			c = c2
		}
	}
	if o.V == nil {
		o.V = c.twins(t, cfg)
	}
	c.account()
	return o
}

func hasOptPost(sc *Scn) bool {
	for _, n := range sc.Nodes {
		if n.OptPost {
			return true
		}
	}
	return false
}

func TestSim(t *testing.T) {
	eng.Main(t, &eng.Spec{Name: "flowsim", Gen: generate, Run: run, Decode: decode, Shrink: shrinkCands, Corpus: corpus})
}
