package flowsim

import (
	"regexp"
	"fmt"
	"strings"

	"verif.local/simrt"
)

// Observed history, split per run and per lane.

type laneKey struct{ N, V, I int }

type ORun struct {
	Main    []simrt.Event             // callback events of non-item lanes, in log order
	Lanes   map[laneKey][]simrt.Event // batch item events per (node, visit, item)
	All     []simrt.Event             // every event between run_start and run_end
	Cancels []simrt.Event
	Start   *simrt.Event
	End     *simrt.Event // nil if the run never returned
}

type Obs struct {
	Runs   []*ORun
	Cfg    map[[2]int]string // (node, phase: 0 as built, 1 after reconfiguration)
	Store  string
	Cancel []simrt.Event // all cancel events, whole log
}

func isCallback(k string) bool {
	switch k {
	case "prep_start", "prep_end", "exec_start", "exec_end", "fb_start", "fb_end", "post_start", "post_end":
		return true
	}
	return false
}

func parseObs(evs []simrt.Event) *Obs {
	o := &Obs{Cfg: map[[2]int]string{}}
	var cur *ORun
	for i := range evs {
		e := evs[i]
		switch e.Kind {
		case "run_start":
			cur = &ORun{Lanes: map[laneKey][]simrt.Event{}, Start: &evs[i]}
			o.Runs = append(o.Runs, cur)
			continue
		case "run_end":
			if cur != nil {
				cur.End = &evs[i]
			}
			cur = nil
			continue
		case "cfg":
			o.Cfg[[2]int{e.N, e.V}] = e.S1
			continue
		case "store":
			o.Store = e.S1
			continue
		case "cancel":
			o.Cancel = append(o.Cancel, e)
			if cur != nil {
				cur.Cancels = append(cur.Cancels, e)
				cur.All = append(cur.All, e)
			}
			continue
		}
		if cur == nil {
			// a callback outside any run (after Run returned, or before it started)
			if isCallback(e.Kind) && len(o.Runs) > 0 {
				last := o.Runs[len(o.Runs)-1]
				last.All = append(last.All, e)
				if e.I > 0 {
					k := laneKey{e.N, e.V, e.I - 1}
					last.Lanes[k] = append(last.Lanes[k], e)
				} else {
					last.Main = append(last.Main, e)
				}
			}
			continue
		}
		cur.All = append(cur.All, e)
		if !isCallback(e.Kind) {
			continue
		}
		if e.I > 0 {
			k := laneKey{e.N, e.V, e.I - 1}
			cur.Lanes[k] = append(cur.Lanes[k], e)
		} else {
			cur.Main = append(cur.Main, e)
		}
	}
	return o
}

// projections: which fields of an event a property speaks about

type proj func(kind string, n, v, a, i int, s1, s2, s3 string) (string, bool)

func projFull(kind string, n, v, a, i int, s1, s2, s3 string) (string, bool) {
	return fmt.Sprintf("%s n%d v%d a%d i%d [%s|%s|%s]", kind, n, v, a, i, s1, s2, s3), true
}

// projStarts: every callback invocation with all its arguments, but the error
// handed to the fallback (C02) left out.
func projC01(kind string, n, v, a, i int, s1, s2, s3 string) (string, bool) {
	switch kind {
	case "prep_start", "exec_start", "post_start":
		return fmt.Sprintf("%s n%d v%d a%d [%s|%s|%s]", kind, n, v, a, s1, s2, s3), true
	case "fb_start":
		return fmt.Sprintf("%s n%d v%d [%s]", kind, n, v, s1), true
	}
	return "", false
}

func projC02(kind string, n, v, a, i int, s1, s2, s3 string) (string, bool) {
	switch kind {
	case "exec_start":
		return fmt.Sprintf("exec n%d v%d a%d [%s]", n, v, a, s1), true
	case "fb_start":
		return fmt.Sprintf("fallback n%d v%d [%s|%s]", n, v, s1, s2), true
	case "post_start":
		return fmt.Sprintf("post n%d v%d receives [%s]", n, v, s3), true
	}
	return "", false
}

// projC06: the batch prep / post calls in the main lane (post exactly once, with the items in order)
func projC06(kind string, n, v, a, i int, s1, s2, s3 string) (string, bool) {
	switch kind {
	case "prep_start":
		return fmt.Sprintf("prep n%d v%d", n, v), true
	case "post_start":
		return fmt.Sprintf("post n%d v%d items [%s]", n, v, s2), true
	}
	return "", false
}

func projVisits(kind string, n, v, a, i int, s1, s2, s3 string) (string, bool) {
	if kind == "prep_start" {
		return fmt.Sprintf("n%d v%d", n, v), true
	}
	return "", false
}

// prepErrRes: an error Result that a prep function returned with a nil Go error
// (payload kind erresult) may reach exec and post as such or as its nil value;
// both read "nil" here. Wrapped into another Result ("WER(...)") it stays as it is.
var prepErrRes = regexp.MustCompile(`(^|[^W])ER\(n\d+v\d+pX\)`)

func projC17(kind string, n, v, a, i int, s1, s2, s3 string) (string, bool) {
	switch kind {
	case "exec_start":
		return fmt.Sprintf("exec n%d v%d a%d i%d receives [%s]", n, v, a, i, prepErrRes.ReplaceAllString(s1, "${1}nil")), true
	case "post_start":
		return fmt.Sprintf("post n%d v%d receives [%s|%s]", n, v, prepErrRes.ReplaceAllString(s2, "${1}nil"), s3), true
	}
	return "", false
}

func projTimes(kind string, n, v, a, i int, s1, s2, s3 string) (string, bool) {
	return fmt.Sprintf("%s n%d v%d a%d i%d", kind, n, v, a, i), true
}

func projObs(es []simrt.Event, p proj, withT bool) []string {
	var out []string
	for _, e := range es {
		if s, ok := p(e.Kind, e.N, e.V, e.A, e.I, e.S1, e.S2, e.S3); ok {
			if withT {
				s += fmt.Sprintf(" @%dus", e.T/1000)
			}
			out = append(out, s)
		}
	}
	return out
}

func projModel(es []MEv, p proj, withT bool) []string {
	var out []string
	for _, e := range es {
		if s, ok := p(e.Kind, e.N, e.V, e.A, e.I, e.S1, e.S2, e.S3); ok {
			if withT {
				if e.T < 0 {
					s += " @*"
				} else {
					s += fmt.Sprintf(" @%dus", e.T/1000)
				}
			}
			out = append(out, s)
		}
	}
	return out
}

// matchWild: want may contain "*" fields (inside [...|...]) or "@*".
func matchWild(got, want string) bool {
	if got == want {
		return true
	}
	if !strings.Contains(want, "*") {
		return false
	}
	// compare token by token, splitting on the separators used by the projections
	split := func(s string) []string {
		return strings.FieldsFunc(s, func(r rune) bool { return r == '|' || r == '[' || r == ']' || r == '@' })
	}
	g, w := split(got), split(want)
	if len(g) != len(w) {
		return false
	}
	for i := range g {
		if w[i] != "*" && strings.TrimSpace(w[i]) != "*" && g[i] != w[i] {
			return false
		}
	}
	return true
}

func diffSeq(got, want []string) string {
	for i := 0; i < len(got) || i < len(want); i++ {
		g, w := "<nothing>", "<nothing>"
		if i < len(got) {
			g = got[i]
		}
		if i < len(want) {
			w = want[i]
		}
		if !matchWild(g, w) {
			return fmt.Sprintf("position %d: observed %q, the model requires %q (observed %d entries, model %d)", i, g, w, len(got), len(want))
		}
	}
	return ""
}
