package flowsim

import (
	"context"
	"errors"
	"fmt"
	"hash/fnv"
	"reflect"
	"sort"
	"strconv"
	"strings"
	"sync"
	"time"

	"github.com/mark3labs/flyt"
	"verif.local/simrt"
)

// ---- payload and error tokens ------------------------------------------------

type tokBox struct{ Tok string }
type tokStruct struct {
	Tok string
	N   int
}

// tokErrPay is an ordinary payload whose type happens to implement error (a
// report with an Error() method carried as data): it is a value, not a failure.
type tokErrPay struct{ Tok string }

func (p tokErrPay) Error() string { return "report " + p.Tok }

// simErr is the base ("sentinel") error of a failing callback.
type simErr struct{ Tok string }

func (e *simErr) Error() string { return "simulated failure " + e.Tok }

// customErr is a struct-typed error found with errors.As.
// hintErr: an error that carries a retry hint, as rate-limit errors of API
// clients do. The framework's retry wait is configured on the node, not by it.
type hintErr struct{ Tok string }

func (e hintErr) Error() string             { return "rate limited " + e.Tok }
func (e hintErr) RetryAfter() time.Duration { return 0 }

// listErr: an error type that is not comparable (a slice), like
// go/scanner.ErrorList. The token is its first element.
type listErr []string

func (e listErr) Error() string { return "errors: " + strings.Join(e, "; ") }
func (e listErr) Is(target error) bool {
	t, ok := target.(listErr)
	return ok && len(t) > 0 && len(e) > 0 && t[0] == e[0]
}

// nilPtrErr: the "typednil" flavour. The error a callback returns is a nil
// *nilPtrErr in a non-nil error interface - the classic gotcha; it is an
// error (err != nil), and the framework must treat it as one.
type nilPtrErr struct{ _ int }

func (e *nilPtrErr) Error() string { return "typed-nil error" }

type customErr struct {
	Tok  string
	Code int
}

// Error is slow (a scheduling point): whoever renders this error's message
// gives every other task a chance to move meanwhile.
func (e customErr) Error() string {
	simrt.YieldLast("customErr.Error") // (runs on when nothing else can: as slow as it gets)
	return "custom failure " + e.Tok
}

// wrapErr is a struct-typed error that itself wraps another error (Unwrap).
type wrapErr struct {
	Tok   string
	Inner error
}

func (e wrapErr) Error() string { return "wrapping failure " + e.Tok + ": " + e.Inner.Error() }
func (e wrapErr) Unwrap() error { return e.Inner }

type regErr struct {
	base     error // what errors.Is / errors.As must find
	returned error // the very value the callback returned
}

type registry struct {
	mu   sync.Mutex // real mutex: never held across a scheduling point
	vals map[string]any
	ints map[int]string
	errs map[string]*regErr
}

func tokInt(tok string) int {
	h := fnv.New64a()
	h.Write([]byte(tok))
	return int(h.Sum64() >> 2)
}

func (r *registry) mkPay(kind, tok string) any {
	var v any
	switch kind {
	case "", "int":
		n := tokInt(tok)
		r.mu.Lock()
		r.ints[n] = tok
		r.mu.Unlock()
		return n
	case "str":
		return "T:" + tok
	case "float":
		n := tokInt(tok) % (1 << 40)
		r.mu.Lock()
		r.ints[n] = tok
		r.mu.Unlock()
		return float64(n) + 0.25
	case "map":
		v = map[string]any{"tok": tok}
	case "slice":
		v = []string{tok}
	case "ptr":
		v = &tokBox{Tok: tok}
	case "struct":
		return tokStruct{Tok: tok, N: 7}
	case "errpay":
		return tokErrPay{Tok: tok}
	case "actempty": // a payload of the library's own Action type that happens to be empty
		return flyt.Action("")
	case "nil":
		return nil
	case "nilptr": // typed nils must keep their type through every hand-over
		return (*tokBox)(nil)
	case "nilmap":
		return map[string]any(nil)
	case "nilslice":
		return []string(nil)
	case "erresult":
		// a Result-style prep function that answers with an error Result and a nil
		// Go error. Its value is nil; whether the error state travels on is the
		// library's choice - but exec and post are told the same thing, and it is
		// not wrapped into another Result on the way
		return flyt.NewErrorResult(r.mkErr("sentinel", tok+"X"))
	case "reslist":
		// a payload that is a list of Results (what a batch node's post receives and
		// may well hand on): to a non-batch node it is a value like any other
		return []flyt.Result{flyt.NewResult("T:" + tok), flyt.NewResult(nil)}
	case "result":
		// a payload that is itself a flyt.Result (struct / plain nodes only: the
		// framework must hand it on untouched)
		return flyt.NewResult("T:" + tok)
	default:
		panic("bad payload kind " + kind)
	}
	r.mu.Lock()
	r.vals[tok] = v
	r.mu.Unlock()
	return v
}

func payDesc(kind, tok string) string {
	switch kind {
	case "nil", "nilptr", "nilmap", "nilslice", "actempty":
		return kind
	case "result":
		return "WR(" + tok + ")"
	case "reslist":
		return "[" + tok + " nil]"
	case "erresult":
		return "nil"
	}
	return tok
}

func (r *registry) mkErr(flavor, tok string) error {
	var re regErr
	switch flavor {
	case "typednil":
		var e *nilPtrErr
		re = regErr{base: e, returned: e}
	case "hint":
		e := hintErr{Tok: tok}
		re = regErr{base: e, returned: e}
	case "list":
		e := listErr{tok, "and more"}
		re = regErr{base: e, returned: e}
	case "sentinel", "errres":
		e := &simErr{Tok: tok}
		re = regErr{base: e, returned: e}
	case "wrapped":
		e := &simErr{Tok: tok}
		re = regErr{base: e, returned: fmt.Errorf("callback %s: %w", tok, e)}
	case "custom":
		e := customErr{Tok: tok, Code: 42}
		re = regErr{base: e, returned: e}
	case "wrapcustom":
		e := wrapErr{Tok: tok, Inner: &simErr{Tok: tok + "-inner"}}
		re = regErr{base: e, returned: e}
	case "ctxerr":
		// an ordinary callback failure whose error value happens to wrap a context
		// error (a per-attempt timeout of the callback's own): the run's context is live
		e := wrapErr{Tok: tok, Inner: context.DeadlineExceeded}
		re = regErr{base: e, returned: e}
	default:
		panic("bad error flavour " + flavor)
	}
	r.mu.Lock()
	r.errs[tok] = &re
	r.mu.Unlock()
	return re.returned
}

func (r *registry) describe(v any) string {
	switch x := v.(type) {
	case nil:
		return "nil"
	case flyt.Action:
		if x == "" {
			return "actempty"
		}
		return "?action:" + string(x)
	case flyt.Result:
		// a Result where a plain value was expected: marked W(rapped)
		if x.IsError() {
			return "WER(" + r.describeErr(x.Error()) + ")"
		}
		return "WR(" + r.describe(x.Value()) + ")"
	case int:
		r.mu.Lock()
		tok, ok := r.ints[x]
		r.mu.Unlock()
		if ok {
			return tok
		}
		return "?int:" + strconv.Itoa(x)
	case float64:
		r.mu.Lock()
		tok, ok := r.ints[int(x)]
		r.mu.Unlock()
		if ok && x-float64(int(x)) == 0.25 {
			return tok
		}
		return fmt.Sprintf("?float:%v", x)
	case string:
		if strings.HasPrefix(x, "T:") {
			return x[2:]
		}
		return "?string:" + strings.ReplaceAll(x, " ", "_")
	case map[string]any:
		if x == nil {
			return "nilmap"
		}
		tok, _ := x["tok"].(string)
		r.mu.Lock()
		orig := r.vals[tok]
		r.mu.Unlock()
		if om, ok := orig.(map[string]any); ok && reflect.ValueOf(om).Pointer() == reflect.ValueOf(x).Pointer() {
			return tok
		}
		return tok + "(copy)"
	case []string:
		if x == nil {
			return "nilslice"
		}
		if len(x) != 1 {
			return fmt.Sprintf("?[]string:%v", x)
		}
		r.mu.Lock()
		orig := r.vals[x[0]]
		r.mu.Unlock()
		if os, ok := orig.([]string); ok && &os[0] == &x[0] {
			return x[0]
		}
		return x[0] + "(copy)"
	case *tokBox:
		if x == nil {
			return "nilptr"
		}
		r.mu.Lock()
		orig := r.vals[x.Tok]
		r.mu.Unlock()
		if orig == any(x) {
			return x.Tok
		}
		return x.Tok + "(copy)"
	case tokErrPay:
		return x.Tok
	case tokStruct:
		if x.N != 7 {
			return x.Tok + "(changed)"
		}
		return x.Tok
	case []flyt.Result:
		parts := make([]string, len(x))
		for i, it := range x {
			parts[i] = r.describeSlot(it)
		}
		return "[" + strings.Join(parts, " ") + "]"
	case *flyt.SharedStore:
		return "?store"
	}
	return fmt.Sprintf("?%T", v)
}

// describeSlot describes one element of a batch item / result list.
func (r *registry) describeSlot(it flyt.Result) string {
	if it.IsError() {
		return "ER(" + r.describeErr(it.Error()) + ")"
	}
	return r.describe(it.Value())
}

func (r *registry) describeErr(err error) string {
	if err == nil {
		return "nil"
	}
	r.mu.Lock()
	toks := make([]string, 0, len(r.errs))
	for t := range r.errs {
		toks = append(toks, t)
	}
	sort.Strings(toks)
	errs := make([]*regErr, len(toks))
	for i, t := range toks {
		errs[i] = r.errs[t]
	}
	r.mu.Unlock()
	for i, re := range errs {
		if reflect.TypeOf(err).Comparable() && reflect.TypeOf(re.returned).Comparable() && re.returned == err {
			return toks[i]
		}
	}
	// the exact value the callback returned must be found by errors.Is, and a
	// struct-typed error by errors.As with the same fields
	for i, re := range errs {
		switch b := re.base.(type) {
		// (an error that wraps the callback's error with %w is that error, as far
		// as every property is concerned: errors.Is / errors.As is the criterion)
		case customErr:
			var got customErr
			if errors.As(err, &got) && got == b {
				return toks[i]
			}
		case wrapErr:
			var got wrapErr
			if errors.As(err, &got) && got == b && errors.Is(err, re.returned) {
				return toks[i]
			}
		default:
			if errors.Is(err, re.returned) {
				return toks[i]
			}
		}
	}
	// only an inner cause of what the callback returned survives
	for i, re := range errs {
		if _, isPtr := re.base.(*simErr); isPtr && errors.Is(err, re.base) {
			return "inner-cause-only:" + toks[i]
		}
		if w, ok := re.base.(wrapErr); ok && errors.Is(err, w.Inner) {
			if _, own := w.Inner.(*simErr); own { // a context error as inner cause identifies nothing
				return "inner-cause-only:" + toks[i]
			}
		}
	}
	switch {
	case errors.Is(err, context.Canceled):
		return "?ctx:canceled"
	case errors.Is(err, context.DeadlineExceeded):
		return "?ctx:deadline"
	}
	return "?err:" + strings.ReplaceAll(err.Error(), " ", "_")
}

// ---- harness -------------------------------------------------------------------

type nodeState struct {
	visits  int
	cur     int
	attempt int
	itemAtt map[int]int
	started int // exec_start events of the current visit (barrier gate)
	depIn   int // first attempts of "dep"-gated items started in the current visit
	nilSeen int // nil-argument exec calls of the current visit (Any-style exec, error-Result items)
	open    bool // a visit of a node without a prep function is in progress (its first phase opens it)
	dupSeen map[int]int // exec calls seen per original item of a group of equal items
}

// begin opens a new visit; called inside the scheduler by the first phase the node has.
func (st *nodeState) begin() int {
	v := st.visits
	st.visits++
	st.cur = v
	st.attempt = 0
	st.started = 0
	st.depIn = 0
	st.nilSeen = 0
	st.itemAtt = map[int]int{}
	st.dupSeen = map[int]int{}
	st.open = true
	return v
}

type harness struct {
	kept     []flyt.Result // ReuseKept: the result list the last batch post was given
	sc       *Scn
	ctx      context.Context
	cancel   context.CancelFunc
	store    *flyt.SharedStore
	nodes    []flyt.Node
	st       []*nodeState
	reg      *registry
	failSeen bool // an exec failure has been logged (read / written in the scheduler only)
	runIdx   int
	// contexts handed to callbacks during the current run, with the node that got them
	ctxMu   sync.Mutex
	ctxSeen []seenCtx
}

type seenCtx struct {
	node int
	ctx  context.Context
	dead bool
}

// noteCtx remembers a context a callback received and reports (as an event) any
// context handed out earlier in this run that has died although the run's own
// context is still alive: a later step could no longer use what an earlier one
// created under it.
func (h *harness) noteCtx(n *NodeSpec, ctx context.Context) {
	if ctx == nil {
		return
	}
	var died []int
	h.ctxMu.Lock()
	if h.ctx.Err() == nil {
		for i := range h.ctxSeen {
			if !h.ctxSeen[i].dead && h.ctxSeen[i].ctx.Err() != nil {
				h.ctxSeen[i].dead = true
				died = append(died, h.ctxSeen[i].node)
			}
		}
	}
	h.ctxSeen = append(h.ctxSeen, seenCtx{node: n.ID, ctx: ctx})
	h.ctxMu.Unlock()
	for _, d := range died {
		simrt.Emit(simrt.Event{Kind: "ctx_died_early", N: d, V: n.ID})
	}
}

func newHarness(sc *Scn) *harness {
	h := &harness{sc: sc, reg: &registry{vals: map[string]any{}, ints: map[int]string{}, errs: map[string]*regErr{}}}
	for range sc.Nodes {
		h.st = append(h.st, &nodeState{cur: -1, itemAtt: map[int]int{}})
	}
	return h
}

func (h *harness) storeID(s *flyt.SharedStore) string {
	switch {
	case s == nil:
		return "S-nil"
	case s == h.store:
		return "S0"
	}
	return "S-other"
}

// perform executes the scripted side effects of one callback invocation.
func (h *harness) perform(n *NodeSpec, o Outcome, barrierNeed int) {
	if o.SleepMs > 0 {
		time.Sleep(time.Duration(o.SleepMs) * time.Millisecond)
	}
	switch o.Gate {
	case "failseen":
		simrt.YieldCond("gate:failseen", func() bool { return h.failSeen }, nil)
	case "barrier":
		st := h.st[n.ID]
		simrt.YieldCond("gate:barrier", func() bool { return st.started >= barrierNeed }, nil)
	case "dep":
		st := h.st[n.ID]
		need := 0
		for _, it := range n.visit(st.cur).Items {
			if attemptOutcome(it.Exec, 1).Gate == "dep" {
				need++
			}
		}
		simrt.YieldCond("gate:dep", func() bool { return st.depIn >= need }, nil)
	case "last":
		simrt.YieldLast("gate:last")
	}
	if o.Conn != nil {
		var to flyt.Node
		if o.Conn.To >= 0 {
			to = h.nodes[o.Conn.To]
		}
		flowOf(h.nodes[o.Conn.Flow]).Connect(h.nodes[o.Conn.From], flyt.Action(o.Conn.Action), to)
	}
	if o.Cancel {
		simrt.Emit(simrt.Event{Kind: "cancel", N: n.ID, V: h.st[n.ID].cur})
		h.cancel()
	}
	if o.Boost {
		simrt.Boost()
	}
}

func (h *harness) prep(n *NodeSpec, shared *flyt.SharedStore) (any, error) {
	st := h.st[n.ID]
	var v int
	simrt.EmitF(simrt.Event{Kind: "prep_start", N: n.ID}, nil, func(e *simrt.Event) {
		v = st.begin()
		e.V = v
		e.S1 = h.storeID(shared)
	})
	vs := n.visit(v)
	o := vs.Prep
	h.perform(n, o, 0)
	tok := fmt.Sprintf("n%dv%dp", n.ID, v)
	if o.Fail != "" {
		err := h.reg.mkErr(o.Fail, tok+"X")
		simrt.Emit(simrt.Event{Kind: "prep_end", N: n.ID, V: v, S1: "err:" + tok + "X"})
		return nil, err
	}
	if n.Kind == "batch" {
		val, desc := h.batchItems(n, v, vs)
		simrt.Emit(simrt.Event{Kind: "prep_end", N: n.ID, V: v, S1: "ok:" + desc})
		return val, nil
	}
	val := h.reg.mkPay(o.Pay, tok)
	simrt.Emit(simrt.Event{Kind: "prep_end", N: n.ID, V: v, S1: "ok:" + payDesc(o.Pay, tok)})
	return val, nil
}

func itemTok(n, v, i int) string { return fmt.Sprintf("n%dv%dit%d", n, v, i) }

func itemPay(n *NodeSpec, it *Item) string {
	switch n.PrepShape {
	case "ints":
		return "int"
	case "strings":
		return "str"
	case "single":
		if it.Pay == "slice" {
			return "int" // a single value that is itself a slice would legitimately be taken as the item list
		}
	}
	if it.Pay == "nil" || it.Pay == "erritem" || strings.HasPrefix(it.Pay, "nil") {
		return "int" // items must stay attributable
	}
	return it.Pay
}

// batchItems builds what the batch prep returns, in the scripted shape.
func (h *harness) batchItems(n *NodeSpec, v int, vs *Visit) (any, string) {
	var descs []string
	vals := make([]any, len(vs.Items))
	for i := range vs.Items {
		tok := itemTok(n.ID, v, i)
		if vs.Items[i].Pay == "erritem" && (n.PrepShape == "" || n.PrepShape == "results") {
			vals[i] = flyt.NewErrorResult(h.reg.mkErr("sentinel", tok+"E"))
			descs = append(descs, "ER("+tok+"E)")
			continue
		}
		if d := vs.Items[i].DupOf; d > 0 && d-1 < i {
			vals[i] = vals[d-1] // the same value at a second position
			descs = append(descs, descs[d-1])
			continue
		}
		if vs.Items[i].Pay == "nilitem" && n.PrepShape == "anys" {
			vals[i] = nil // an untyped nil in the item list is an item like any other
			descs = append(descs, "nil")
			continue
		}
		vals[i] = h.reg.mkPay(itemPay(n, &vs.Items[i]), tok)
		descs = append(descs, tok)
	}
	desc := "[" + strings.Join(descs, " ") + "]"
	switch n.PrepShape {
	case "", "results":
		out := make([]flyt.Result, len(vals))
		if h.sc.ReuseKept && v >= 1 && len(vals) > 0 {
			simrt.Locked(func() {
				if cap(h.kept) >= len(vals) {
					out = h.kept[:len(vals)] // the list an earlier post was given, recycled as a buffer
				}
			})
		}
		for i, x := range vals {
			if r, ok := x.(flyt.Result); ok {
				out[i] = r // an item that is an error Result
			} else {
				out[i] = flyt.NewResult(x)
			}
		}
		return out, desc
	case "anys":
		return vals, desc
	case "ints":
		out := make([]int, len(vals))
		for i, x := range vals {
			out[i] = x.(int)
		}
		return out, desc
	case "strings":
		out := make([]string, len(vals))
		for i, x := range vals {
			out[i] = x.(string)
		}
		return out, desc
	case "single":
		if len(vals) != 1 {
			panic("prep shape single needs exactly one item")
		}
		return vals[0], desc
	case "nil":
		return nil, desc
	}
	panic("bad prep shape " + n.PrepShape)
}

var itemRe = func(tok string) (n, v, i int, ok bool) {
	// n<id>v<visit>it<item>
	var a, b, c int
	if _, err := fmt.Sscanf(tok, "n%dv%dit%d", &a, &b, &c); err != nil {
		return 0, 0, 0, false
	}
	return a, b, c, true
}

// exec is the body of every Exec callback. arg is what flyt handed over.
func (h *harness) exec(ctx context.Context, n *NodeSpec, arg any, anyStyle bool) (val any, errRes error, err error) {
	st := h.st[n.ID]
	argDesc := ""
	item := -1
	if r, ok := arg.(flyt.Result); ok && !anyStyle {
		// Result-style function (or a batch item): look through one Result layer
		if r.IsError() {
			argDesc = "ER(" + h.reg.describeErr(r.Error()) + ")"
		} else {
			argDesc = h.reg.describe(r.Value())
		}
	} else {
		argDesc = h.reg.describe(arg)
	}
	if n.Kind == "batch" {
		key := strings.TrimSuffix(argDesc, "(copy)")
		if strings.HasPrefix(key, "ER(") { // an item that is an error Result: ER(<item token>E)
			key = strings.TrimSuffix(strings.TrimSuffix(strings.TrimPrefix(key, "ER("), ")"), "E")
		}
		if nn, _, ii, ok := itemRe(key); ok && nn == n.ID {
			item = ii
		} else {
			item = 9000 // not an item of this batch
		}
	}
	nilArgErrItem := n.Kind == "batch" && anyStyle && argDesc == "nil"
	var v, a int
	simrt.EmitF(simrt.Event{Kind: "exec_start", N: n.ID, S1: argDesc}, nil, func(e *simrt.Event) {
		if n.Kind == "func" && !hasPhase(n, 0) && !st.open {
			st.begin() // no prep function: the first exec attempt opens the visit
		}
		v = st.cur
		if nilArgErrItem {
			// sequential batch, Any-style exec: the k-th nil argument belongs to the
			// k-th item that prep handed over as an error Result
			k := 0
			for ii, it := range n.visit(v).Items {
				if it.Pay == "erritem" || (it.Pay == "nilitem" && n.PrepShape == "anys") {
					if k == st.nilSeen {
						item = ii
						break
					}
					k++
				}
			}
			st.nilSeen++
		}
		if item >= 0 && item < len(n.visit(v).Items) {
			// equal values at several positions: the k-th call with that value is
			// the k-th item of the group (sequential, one attempt each)
			group := []int{item}
			for ii, it := range n.visit(v).Items {
				if it.DupOf == item+1 {
					group = append(group, ii)
				}
			}
			if len(group) > 1 {
				k := st.dupSeen[item]
				st.dupSeen[item]++
				if k < len(group) {
					item = group[k]
				} else {
					item = 9000
				}
			}
		}
		if item >= 0 {
			st.itemAtt[item]++
			a = st.itemAtt[item]
			e.I = item + 1
		} else {
			st.attempt++
			a = st.attempt
		}
		st.started++
		if item >= 0 && a == 1 {
			if vs := n.visit(v); item < len(vs.Items) && attemptOutcome(vs.Items[item].Exec, 1).Gate == "dep" {
				st.depIn++
			}
		}
		e.V = v
		e.A = a
	})
	vs := n.visit(v)
	var o Outcome
	tok := ""
	need := 0
	if item >= 0 {
		if item < len(vs.Items) {
			o = attemptOutcome(vs.Items[item].Exec, a)
		}
		tok = fmt.Sprintf("n%dv%di%de%d", n.ID, v, item, a)
		need = min(len(vs.Items), max(n.configRun(h.runIdx).Conc, 1))
	} else {
		o = attemptOutcome(vs.Exec, a)
		tok = fmt.Sprintf("n%dv%de%d", n.ID, v, a)
	}
	h.perform(n, o, need)
	if o.Nested > 0 {
		// a batch of its own, run from inside this item with the item's context
		nestedStore := ""
		if o.NestedStore {
			nestedStore = "scratch"
		}
		simrt.Emit(simrt.Event{Kind: "nested_start", N: n.ID, V: v, I: item + 1, S1: fmt.Sprint(o.Nested - 1), S2: nestedStore})
		// the nested run may re-enter this very node object, or a flow that contains
		// it: every node's per-visit bookkeeping is put back afterwards
		saved := make([]nodeState, len(h.st))
		simrt.Locked(func() {
			for i, x := range h.st {
				saved[i] = *x
			}
		})
		var nerr error
		if st.visits < 8 { // (a shrink candidate may nest without end; the model stops at the same point)
			simrt.Locked(func() { st.open = false }) // a nested run of this node opens a visit of its own
			store := h.store
			if h.sc.NilStore {
				store = nil // (the model's tag for the run's own store)
			}
			if o.NestedStore {
				store = flyt.NewSharedStore()
			}
			_, nerr = flyt.Run(ctx, h.nodes[o.Nested-1], store)
		}
		simrt.Locked(func() {
			for i, x := range h.st {
				visits := x.visits
				*x = saved[i]
				x.visits = visits
			}
		})
		simrt.Emit(simrt.Event{Kind: "nested_end", N: n.ID, V: v, I: item + 1, S1: h.reg.describeErr(nerr), S2: nestedStore})
	}
	if o.Panic {
		simrt.Emit(simrt.Event{Kind: "exec_panic", N: n.ID, V: v, A: a, I: item + 1})
		panic("scripted panic in " + tok)
	}
	end := simrt.Event{Kind: "exec_end", N: n.ID, V: v, A: a}
	if item >= 0 {
		end.I = item + 1
	}
	switch o.Fail {
	case "":
		val = h.reg.mkPay(o.Pay, tok)
		end.S1 = "ok:" + payDesc(o.Pay, tok)
		simrt.EmitF(end, nil, func(*simrt.Event) { st.open = false })
		return val, nil, nil
	case "errres":
		e := h.reg.mkErr("errres", tok+"X")
		end.S1 = "errres:" + tok + "X"
		simrt.EmitF(end, nil, func(*simrt.Event) { st.open = false })
		return nil, e, nil
	default:
		et := execErrTok(o, tok)
		e := h.reg.mkErr(o.Fail, et)
		end.S1 = "err:" + et
		budget := 1
		if n.retryable() {
			budget = max(n.configRun(h.runIdx).Retries, 1)
		}
		simrt.EmitF(end, nil, func(*simrt.Event) {
			h.failSeen = true
			if a >= budget {
				st.open = false // the attempts of this visit are used up
			}
		})
		if o.Both && o.Pay == "er" && !anyStyle {
			return nil, e, e // the failure reported both ways
		}
		if o.Both {
			return h.reg.mkPay("str", tok+"-ignored"), nil, e // a value alongside the error
		}
		return nil, nil, e
	}
}

func (h *harness) fallback(n *NodeSpec, prep any, ferr error) (any, error) {
	st := h.st[n.ID]
	desc := ""
	item := -1
	if r, ok := prep.(flyt.Result); ok && n.Kind == "batch" {
		desc = h.reg.describeSlot(r)
		key := strings.TrimSuffix(desc, "(copy)")
		if strings.HasPrefix(key, "ER(") {
			key = strings.TrimSuffix(strings.TrimSuffix(strings.TrimPrefix(key, "ER("), ")"), "E")
		}
		if nn, _, ii, ok := itemRe(key); ok && nn == n.ID {
			item = ii
		} else {
			item = 9000
		}
	} else {
		desc = h.reg.describe(prep)
	}
	var v int
	ev := simrt.Event{Kind: "fb_start", N: n.ID, S1: desc, S2: h.reg.describeErr(ferr)}
	if item >= 0 {
		ev.I = item + 1
	}
	simrt.EmitF(ev, nil, func(e *simrt.Event) {
		v = st.cur
		e.V = v
	})
	vs := n.visit(v)
	var fo *Outcome
	tok := fmt.Sprintf("n%dv%df", n.ID, v)
	if item >= 0 {
		if item < len(vs.Items) {
			fo = vs.Items[item].Fb
		}
		tok = fmt.Sprintf("n%dv%di%df", n.ID, v, item)
	} else {
		fo = vs.Fb
	}
	end := simrt.Event{Kind: "fb_end", N: n.ID, V: v, I: ev.I}
	if fo == nil {
		// unscripted fallback: hand the error back unchanged
		end.S1 = "err:=" + ev.S2
		simrt.Emit(end)
		return nil, ferr
	}
	h.perform(n, *fo, 0)
	if fo.Fail != "" {
		e := h.reg.mkErr(fo.Fail, tok+"X")
		end.S1 = "err:" + tok + "X"
		simrt.Emit(end)
		if fo.Both {
			return prep, e // hands its input back together with the error
		}
		return nil, e
	}
	val := h.reg.mkPay(fo.Pay, tok)
	end.S1 = "ok:" + payDesc(fo.Pay, tok)
	simrt.Emit(end)
	return val, nil
}

func (h *harness) post(n *NodeSpec, shared *flyt.SharedStore, p, e any, resultStyle bool) (flyt.Action, error) {
	st := h.st[n.ID]
	pd, ed := "", ""
	if resultStyle {
		pr, er := p.(flyt.Result), e.(flyt.Result)
		pd, ed = h.reg.describeSlot(pr), h.reg.describeSlot(er)
	} else {
		pd, ed = h.reg.describe(p), h.reg.describe(e)
	}
	var v int
	simrt.EmitF(simrt.Event{Kind: "post_start", N: n.ID, S1: h.storeID(shared), S2: pd, S3: ed}, nil, func(ev *simrt.Event) {
		if n.Kind == "func" && !hasPhase(n, 0) && !hasPhase(n, 1) {
			st.begin() // a routing-only node: post is its only phase
		} else if !st.open && n.configRun(h.runIdx).Retries <= 0 {
			st.begin() // C19 only: a retry count <= 0 and no prep callback: no earlier phase opened the visit
		}
		st.open = false
		v = st.cur
		ev.V = v
	})
	o := n.visit(v).Post
	h.perform(n, o, 0)
	tok := fmt.Sprintf("n%dv%dq", n.ID, v)
	if shared != nil {
		// leave a trace in the shared store (C10: store contents)
		shared.Set(fmt.Sprintf("last_n%d", n.ID), v)
		shared.Set("trail", shared.GetString("trail")+fmt.Sprintf("n%dv%d;", n.ID, v))
	}
	if o.Fail != "" {
		et := execErrTok(o, tok)
		err := h.reg.mkErr(o.Fail, et)
		simrt.Emit(simrt.Event{Kind: "post_end", N: n.ID, V: v, S1: "err:" + et})
		return flyt.Action(o.Action), err // (a failing post may name an action too: the error decides)
	}
	simrt.Emit(simrt.Event{Kind: "post_end", N: n.ID, V: v, S1: "ok:" + o.Action})
	return flyt.Action(o.Action), nil
}

// ---- node kinds ------------------------------------------------------------------

type cb struct {
	h *harness
	n *NodeSpec
}

func (c cb) Prep(ctx context.Context, shared *flyt.SharedStore) (any, error) {
	c.h.noteCtx(c.n, ctx)
	return c.h.prep(c.n, shared)
}
func (c cb) Exec(ctx context.Context, prepResult any) (any, error) {
	c.h.noteCtx(c.n, ctx)
	v, er, err := c.h.exec(ctx, c.n, prepResult, true)
	if er != nil {
		return flyt.NewErrorResult(er), nil
	}
	return v, err
}
func (c cb) Post(ctx context.Context, shared *flyt.SharedStore, p, e any) (flyt.Action, error) {
	c.h.noteCtx(c.n, ctx)
	return c.h.post(c.n, shared, p, e, false)
}

// fbcb: the three phases plus a fallback (declared directly, no embedding, so
// that promotion through several embedded fields never becomes ambiguous).
type fbcb struct {
	h *harness
	n *NodeSpec
}

func (c fbcb) Prep(ctx context.Context, s *flyt.SharedStore) (any, error) {
	return cb{c.h, c.n}.Prep(ctx, s)
}
func (c fbcb) Exec(ctx context.Context, p any) (any, error) { return cb{c.h, c.n}.Exec(ctx, p) }
func (c fbcb) Post(ctx context.Context, s *flyt.SharedStore, p, e any) (flyt.Action, error) {
	return cb{c.h, c.n}.Post(ctx, s, p, e)
}
func (c fbcb) ExecFallback(prep any, err error) (any, error) { return c.h.fallback(c.n, prep, err) }

type retrym struct{ n *NodeSpec }

func (c retrym) GetMaxRetries() int     { return c.n.config().Retries }
func (c retrym) GetWait() time.Duration { return time.Duration(c.n.config().WaitMs) * time.Millisecond }

// BaseNode one level deeper so that the harness methods win the promotion.
type baseWrap struct{ *flyt.BaseNode }

type baseNode struct {
	baseWrap
	cb
}
type baseFbNode struct {
	baseWrap
	fbcb
}
// A user type that embeds BaseNode and specifies its retry behaviour by
// overriding the getters (the embedded node's own fields hold other values).
type ovrNode struct {
	baseWrap
	cb
	retrym
}
type ovrFbNode struct {
	baseWrap
	fbcb
	retrym
}
type plainNode struct{ cb }

// decoNode: a decorator. It has no retry settings of its own (so: one
// attempt); Unwrap hands out a node that has a budget of 3 - which is that
// node's business.
type decoNode struct{ cb }

func (decoNode) Unwrap() flyt.Node {
	return flyt.NewBaseNode(flyt.WithMaxRetries(3), flyt.WithWait(10*time.Millisecond))
}
type fbNode struct{ fbcb }
type retryNode struct {
	cb
	retrym
}
type retryFbNode struct {
	fbcb
	retrym
}

// Zero-size node types: pointers to distinct zero-size types may all share one
// address, so only (type, pointer) together identify such a node. They carry
// no state; the running harness and their specs are found through a package
// variable (one simulation per process at a time).
var zstHarness *harness
var zstSpec [4]*NodeSpec

type zst0 struct{}
type zst1 struct{}
type zst2 struct{}
type zst3 struct{}

func zPrep(k int, s *flyt.SharedStore) (any, error) { return zstHarness.prep(zstSpec[k], s) }
func zExec(ctx context.Context, k int, p any) (any, error) {
	v, _, err := zstHarness.exec(ctx, zstSpec[k], p, true)
	return v, err
}
func zPost(k int, s *flyt.SharedStore, p, e any) (flyt.Action, error) {
	return zstHarness.post(zstSpec[k], s, p, e, false)
}

func (*zst0) Prep(ctx context.Context, s *flyt.SharedStore) (any, error) { return zPrep(0, s) }
func (*zst0) Exec(ctx context.Context, p any) (any, error)               { return zExec(ctx, 0, p) }
func (*zst0) Post(ctx context.Context, s *flyt.SharedStore, p, e any) (flyt.Action, error) {
	return zPost(0, s, p, e)
}
func (*zst1) Prep(ctx context.Context, s *flyt.SharedStore) (any, error) { return zPrep(1, s) }
func (*zst1) Exec(ctx context.Context, p any) (any, error)               { return zExec(ctx, 1, p) }
func (*zst1) Post(ctx context.Context, s *flyt.SharedStore, p, e any) (flyt.Action, error) {
	return zPost(1, s, p, e)
}
func (*zst2) Prep(ctx context.Context, s *flyt.SharedStore) (any, error) { return zPrep(2, s) }
func (*zst2) Exec(ctx context.Context, p any) (any, error)               { return zExec(ctx, 2, p) }
func (*zst2) Post(ctx context.Context, s *flyt.SharedStore, p, e any) (flyt.Action, error) {
	return zPost(2, s, p, e)
}
func (*zst3) Prep(ctx context.Context, s *flyt.SharedStore) (any, error) { return zPrep(3, s) }
func (*zst3) Exec(ctx context.Context, p any) (any, error)               { return zExec(ctx, 3, p) }
func (*zst3) Post(ctx context.Context, s *flyt.SharedStore, p, e any) (flyt.Action, error) {
	return zPost(3, s, p, e)
}

// flowWrap: a user type that embeds *flyt.Flow and has lifecycle steps of its
// own: Prep notes that the flow was entered, Post that it was left (both in the
// store's trail) and decides the action. A flow is a node; this is one too.
type flowWrap struct {
	*flyt.Flow
	id     int
	action string
}

func (w *flowWrap) Prep(ctx context.Context, shared *flyt.SharedStore) (any, error) {
	if shared != nil {
		shared.Set("trail", shared.GetString("trail")+fmt.Sprintf("e%d;", w.id))
	}
	return w.Flow.Prep(ctx, shared)
}

func (w *flowWrap) Post(ctx context.Context, shared *flyt.SharedStore, prep, exec any) (flyt.Action, error) {
	if shared != nil {
		shared.Set("trail", shared.GetString("trail")+fmt.Sprintf("x%d;", w.id))
	}
	return flyt.Action(w.action), nil
}

// flowOf: the flow behind a node of kind flow (wrapped or not), nil otherwise.
func flowOf(n flyt.Node) *flyt.Flow {
	switch f := n.(type) {
	case *flyt.Flow:
		return f
	case *flowWrap:
		return f.Flow
	}
	return nil
}

// Value-type nodes: a node need not be a pointer. valNode(0) is the zero value
// of its type - a perfectly good node, and not "no node". Like the zero-size
// types they carry no state and find their spec through a package variable.
type valNode int

var valSpec [4]*NodeSpec

func (v valNode) Prep(ctx context.Context, s *flyt.SharedStore) (any, error) {
	return zstHarness.prep(valSpec[v], s)
}
func (v valNode) Exec(ctx context.Context, p any) (any, error) {
	r, _, err := zstHarness.exec(ctx, valSpec[v], p, true)
	return r, err
}
func (v valNode) Post(ctx context.Context, s *flyt.SharedStore, p, e any) (flyt.Action, error) {
	return zstHarness.post(valSpec[v], s, p, e, false)
}

func baseOpts(n *NodeSpec, form string) []flyt.NodeOption {
	var opts []flyt.NodeOption
	for _, s := range n.Settings {
		if form != "" && s.Form != form {
			continue
		}
		switch s.Param {
		case "retries":
			opts = append(opts, flyt.WithMaxRetries(s.Val))
		case "retries+":
			// a user-written option that is relative to the current setting
			d := s.Val
			opts = append(opts, flyt.NodeOption(func(b *flyt.BaseNode) { flyt.WithMaxRetries(b.GetMaxRetries() + d)(b) }))
		case "wait":
			opts = append(opts, flyt.WithWait(time.Duration(s.Val)*time.Millisecond))
		case "conc":
			opts = append(opts, flyt.WithBatchConcurrency(s.Val))
		case "stop":
			opts = append(opts, flyt.WithBatchErrorHandling(s.Val == 0))
		}
	}
	return opts
}

// baseOptsLast: the same options with the function options first and the base
// options after them (relative orders kept: last-setting-wins is unaffected).
func baseOptsLast(opts []any) []any {
	var fn, base []any
	for _, o := range opts {
		switch o.(type) {
		case flyt.NodeOption, func(*flyt.BaseNode):
			base = append(base, o)
		default:
			fn = append(fn, o)
		}
	}
	return append(fn, base...)
}

// ctorOpts: the opt-form settings as constructor arguments of NewNode / NewBatchNode.
func ctorOpts(n *NodeSpec) []any {
	var out []any
	for _, s := range n.Settings {
		if s.Form != "opt" {
			continue
		}
		one := baseOpts(&NodeSpec{Settings: []Setting{s}}, "opt")
		for _, o := range one {
			if s.Nest {
				own := o
				o = func(b *flyt.BaseNode) {
					// another node, with settings of its own, is built meanwhile
					flyt.NewNode(flyt.WithMaxRetries(9), flyt.WithWait(7*time.Hour), flyt.WithMaxRetries(8), flyt.WithWait(6*time.Hour), flyt.WithMaxRetries(7))
					flyt.NewBatchNode(flyt.WithMaxRetries(9), flyt.WithBatchConcurrency(13), flyt.WithWait(7*time.Hour), flyt.WithBatchErrorHandling(false))
					own(b)
				}
			}
			if s.Plain {
				out = append(out, (func(*flyt.BaseNode))(o))
			} else {
				out = append(out, o)
			}
		}
	}
	return out
}

func (h *harness) execFuncR(n *NodeSpec) func(context.Context, flyt.Result) (flyt.Result, error) {
	return func(ctx context.Context, p flyt.Result) (flyt.Result, error) {
		h.noteCtx(n, ctx)
		v, er, err := h.exec(ctx, n, p, false)
		if err != nil {
			if er != nil {
				return flyt.NewErrorResult(er), err
			}
			if v != nil {
				return flyt.NewResult(v), err
			}
			return flyt.Result{}, err
		}
		if er != nil {
			return flyt.NewErrorResult(er), nil
		}
		return flyt.NewResult(v), nil
	}
}

func (h *harness) execFuncA(n *NodeSpec) func(context.Context, any) (any, error) {
	return func(ctx context.Context, p any) (any, error) {
		h.noteCtx(n, ctx)
		v, er, err := h.exec(ctx, n, p, true)
		if er != nil && err == nil {
			panic("errres outcome scripted for an Any-style exec function")
		}
		return v, err
	}
}

func (h *harness) fbFunc(n *NodeSpec) func(any, error) (any, error) {
	return func(p any, err error) (any, error) { return h.fallback(n, p, err) }
}

func (h *harness) decoyCalled(n *NodeSpec, phase string) {
	simrt.Emit(simrt.Event{Kind: "decoy_called", N: n.ID, S1: phase})
}

func hasDecoy(n *NodeSpec, phase byte) bool { return strings.IndexByte(n.Decoy, phase) >= 0 }

// decoyOpts: the to-be-replaced functions in option form (other style than the real one).
func (h *harness) decoyOpts(n *NodeSpec) []any {
	var opts []any
	if hasDecoy(n, 'p') {
		if n.style(0) == 'R' {
			opts = append(opts, flyt.WithPrepFuncAny(func(context.Context, *flyt.SharedStore) (any, error) { h.decoyCalled(n, "prep"); return nil, nil }))
		} else {
			opts = append(opts, flyt.WithPrepFunc(func(context.Context, *flyt.SharedStore) (flyt.Result, error) {
				h.decoyCalled(n, "prep")
				return flyt.Result{}, nil
			}))
		}
	}
	if hasDecoy(n, 'e') {
		if n.style(1) == 'R' {
			opts = append(opts, flyt.WithExecFuncAny(func(context.Context, any) (any, error) { h.decoyCalled(n, "exec"); return nil, nil }))
		} else {
			opts = append(opts, flyt.WithExecFunc(func(context.Context, flyt.Result) (flyt.Result, error) {
				h.decoyCalled(n, "exec")
				return flyt.Result{}, nil
			}))
		}
	}
	if hasDecoy(n, 'x') {
		if n.style(2) == 'R' {
			opts = append(opts, flyt.WithPostFuncAny(func(context.Context, *flyt.SharedStore, any, any) (flyt.Action, error) {
				h.decoyCalled(n, "post")
				return "", nil
			}))
		} else {
			opts = append(opts, flyt.WithPostFunc(func(context.Context, *flyt.SharedStore, flyt.Result, flyt.Result) (flyt.Action, error) {
				h.decoyCalled(n, "post")
				return "", nil
			}))
		}
	}
	if hasDecoy(n, 'f') {
		opts = append(opts, flyt.WithExecFallbackFunc(func(any, error) (any, error) { h.decoyCalled(n, "fallback"); return nil, nil }))
	}
	return opts
}

// buildFunc builds a function-style node through options, builder methods or both.
func (h *harness) buildFunc(n *NodeSpec) flyt.Node {
	opts := ctorOpts(n)
	prepR := func(ctx context.Context, s *flyt.SharedStore) (flyt.Result, error) {
		h.noteCtx(n, ctx)
		v, err := h.prep(n, s)
		if err != nil {
			return flyt.Result{}, err
		}
		if er, ok := v.(flyt.Result); ok && er.IsError() {
			return er, nil // (payload kind erresult)
		}
		return flyt.NewResult(v), nil
	}
	prepA := func(ctx context.Context, s *flyt.SharedStore) (any, error) { h.noteCtx(n, ctx); return h.prep(n, s) }
	postR := func(ctx context.Context, s *flyt.SharedStore, p, e flyt.Result) (flyt.Action, error) {
		h.noteCtx(n, ctx)
		return h.post(n, s, p, e, true)
	}
	postA := func(ctx context.Context, s *flyt.SharedStore, p, e any) (flyt.Action, error) {
		h.noteCtx(n, ctx)
		return h.post(n, s, p, e, false)
	}
	decoyAsBuilder := n.DecoyForm == "builder" && n.FnForm == "builder"
	if !decoyAsBuilder {
		opts = append(opts, h.decoyOpts(n)...)
	}
	if n.FnForm != "builder" {
		switch n.style(0) {
		case 'R':
			opts = append(opts, flyt.WithPrepFunc(prepR))
		case 'A':
			opts = append(opts, flyt.WithPrepFuncAny(prepA))
		}
		switch n.style(1) {
		case 'R':
			opts = append(opts, flyt.WithExecFunc(h.execFuncR(n)))
		case 'A':
			opts = append(opts, flyt.WithExecFuncAny(h.execFuncA(n)))
		}
		switch n.style(2) {
		case 'R':
			opts = append(opts, flyt.WithPostFunc(postR))
		case 'A':
			opts = append(opts, flyt.WithPostFuncAny(postA))
		}
		if n.HasFb {
			opts = append(opts, flyt.WithExecFallbackFunc(h.fbFunc(n)))
		}
	}
	if n.Sibling {
		opts = baseOptsLast(opts)
		_ = flyt.NewNode(opts...) // an earlier node built from the same option slice
	}
	b := flyt.NewNode(opts...)
	if decoyAsBuilder {
		if hasDecoy(n, 'p') {
			if n.style(0) == 'R' {
				b = b.WithPrepFuncAny(func(context.Context, *flyt.SharedStore) (any, error) { h.decoyCalled(n, "prep"); return nil, nil })
			} else {
				b = b.WithPrepFunc(func(context.Context, *flyt.SharedStore) (flyt.Result, error) {
					h.decoyCalled(n, "prep")
					return flyt.Result{}, nil
				})
			}
		}
		if hasDecoy(n, 'e') {
			if n.style(1) == 'R' {
				b = b.WithExecFuncAny(func(context.Context, any) (any, error) { h.decoyCalled(n, "exec"); return nil, nil })
			} else {
				b = b.WithExecFunc(func(context.Context, flyt.Result) (flyt.Result, error) {
					h.decoyCalled(n, "exec")
					return flyt.Result{}, nil
				})
			}
		}
		if hasDecoy(n, 'x') {
			if n.style(2) == 'R' {
				b = b.WithPostFuncAny(func(context.Context, *flyt.SharedStore, any, any) (flyt.Action, error) {
					h.decoyCalled(n, "post")
					return "", nil
				})
			} else {
				b = b.WithPostFunc(func(context.Context, *flyt.SharedStore, flyt.Result, flyt.Result) (flyt.Action, error) {
					h.decoyCalled(n, "post")
					return "", nil
				})
			}
		}
		if hasDecoy(n, 'f') {
			b = b.WithExecFallbackFunc(func(any, error) (any, error) { h.decoyCalled(n, "fallback"); return nil, nil })
		}
	}
	if n.FnForm == "builder" {
		switch n.style(0) {
		case 'R':
			b = b.WithPrepFunc(prepR)
		case 'A':
			b = b.WithPrepFuncAny(prepA)
		}
		switch n.style(1) {
		case 'R':
			b = b.WithExecFunc(h.execFuncR(n))
		case 'A':
			b = b.WithExecFuncAny(h.execFuncA(n))
		}
		switch n.style(2) {
		case 'R':
			b = b.WithPostFunc(postR)
		case 'A':
			b = b.WithPostFuncAny(postA)
		}
		if n.HasFb {
			b = b.WithExecFallbackFunc(h.fbFunc(n))
		}
	}
	for _, s := range n.Settings {
		if s.Form != "builder" {
			continue
		}
		switch s.Param {
		case "retries":
			b = b.WithMaxRetries(s.Val)
		case "wait":
			b = b.WithWait(time.Duration(s.Val) * time.Millisecond)
		case "conc":
			b = b.WithBatchConcurrency(s.Val)
		case "stop":
			b = b.WithBatchErrorHandling(s.Val == 0)
		}
	}
	return b
}

func (h *harness) batchPost(n *NodeSpec) func(context.Context, *flyt.SharedStore, []flyt.Result, []flyt.Result) (flyt.Action, error) {
	return func(ctx context.Context, s *flyt.SharedStore, items, results []flyt.Result) (flyt.Action, error) {
		if h.sc.ReuseKept {
			simrt.Locked(func() { h.kept = results })
		}
		return h.post(n, s, items, results, false)
	}
}

func (h *harness) buildBatch(n *NodeSpec) flyt.Node {
	if n.Hand {
		// composed by hand from the exported embedded fields: prep goes through
		// CustomNode's prep function and may return anything ToSlice accepts
		var opts []any
		for _, o := range baseOpts(n, "") {
			opts = append(opts, o)
		}
		opts = append(opts, flyt.WithPrepFuncAny(func(ctx context.Context, s *flyt.SharedStore) (any, error) { return h.prep(n, s) }))
		switch n.style(1) {
		case 'R':
			opts = append(opts, flyt.WithExecFunc(h.execFuncR(n)))
		case 'A':
			opts = append(opts, flyt.WithExecFuncAny(h.execFuncA(n)))
		}
		if n.HasFb {
			opts = append(opts, flyt.WithExecFallbackFunc(h.fbFunc(n)))
		}
		cn := flyt.NewNode(opts...).CustomNode
		bb := &flyt.BatchNodeBuilder{BatchNode: &flyt.BatchNode{CustomNode: cn}}
		if n.style(2) != '-' {
			bb.WithPostFunc(h.batchPost(n))
		}
		return bb
	}
	opts := ctorOpts(n)
	batchDecoy := &NodeSpec{ID: n.ID, Styles: n.Styles}
	if hasDecoy(n, 'e') {
		batchDecoy.Decoy += "e"
	}
	if hasDecoy(n, 'f') && n.HasFb {
		batchDecoy.Decoy += "f"
	}
	decoyAsBuilder := n.DecoyForm == "builder" && n.FnForm != "opt"
	if !decoyAsBuilder || hasDecoy(batchDecoy, 'f') {
		d := *batchDecoy
		if decoyAsBuilder {
			d.Decoy = strings.ReplaceAll(d.Decoy, "e", "")
		}
		opts = append(opts, h.decoyOpts(&d)...)
	}
	if n.FnForm == "opt" {
		switch n.style(1) {
		case 'R':
			opts = append(opts, flyt.WithExecFunc(h.execFuncR(n)))
		case 'A':
			opts = append(opts, flyt.WithExecFuncAny(h.execFuncA(n)))
		}
	}
	if n.HasFb { // the batch builder has no method for it: option form only
		opts = append(opts, flyt.WithExecFallbackFunc(h.fbFunc(n)))
	}
	if n.OptPost {
		switch n.style(2) {
		case 'R':
			opts = append(opts, flyt.WithPostFunc(func(ctx context.Context, s *flyt.SharedStore, p, e flyt.Result) (flyt.Action, error) {
				return h.post(n, s, p, e, true)
			}))
		case 'A':
			opts = append(opts, flyt.WithPostFuncAny(func(ctx context.Context, s *flyt.SharedStore, p, e any) (flyt.Action, error) {
				return h.post(n, s, p, e, false)
			}))
		}
	}
	if n.Sibling {
		opts = baseOptsLast(opts)
		_ = flyt.NewBatchNode(opts...) // an earlier node built from the same option slice
	}
	b := flyt.NewBatchNode(opts...)
	b = b.WithPrepFunc(func(ctx context.Context, s *flyt.SharedStore) ([]flyt.Result, error) {
		v, err := h.prep(n, s)
		if err != nil {
			return nil, err
		}
		return v.([]flyt.Result), nil
	})
	if decoyAsBuilder && hasDecoy(batchDecoy, 'e') {
		if n.style(1) == 'R' {
			b = b.WithExecFuncAny(func(context.Context, any) (any, error) { h.decoyCalled(n, "exec"); return nil, nil })
		} else {
			b = b.WithExecFunc(func(context.Context, flyt.Result) (flyt.Result, error) {
				h.decoyCalled(n, "exec")
				return flyt.Result{}, nil
			})
		}
	}
	if n.FnForm != "opt" {
		switch n.style(1) {
		case 'R':
			b = b.WithExecFunc(h.execFuncR(n))
		case 'A':
			b = b.WithExecFuncAny(h.execFuncA(n))
		}
	}
	if n.style(2) != '-' && !n.OptPost {
		b = b.WithPostFunc(h.batchPost(n))
	}
	for _, s := range n.Settings {
		if s.Form != "builder" {
			continue
		}
		switch s.Param {
		case "retries":
			b = b.WithMaxRetries(s.Val)
		case "wait":
			b = b.WithWait(time.Duration(s.Val) * time.Millisecond)
		case "conc":
			b = b.WithBatchConcurrency(s.Val)
		case "stop":
			b = b.WithBatchErrorHandling(s.Val == 0)
		}
	}
	return b
}

func (h *harness) build() {
	zstHarness = h
	zstSpec = [4]*NodeSpec{}
	valSpec = [4]*NodeSpec{}
	h.nodes = make([]flyt.Node, len(h.sc.Nodes))
	for i, n := range h.sc.Nodes {
		c := cb{h: h, n: n}
		switch n.Kind {
		case "base":
			bw := baseWrap{flyt.NewBaseNode(baseOpts(n, "")...)}
			if n.HasFb {
				h.nodes[i] = &baseFbNode{baseWrap: bw, fbcb: fbcb{h, n}}
			} else {
				h.nodes[i] = &baseNode{baseWrap: bw, cb: c}
			}
		case "ovr":
			// the embedded node is configured with values the getters do not report
			cfg := n.config()
			decoyWait := 30 * time.Millisecond
			if cfg.WaitMs > 0 {
				decoyWait = 0
			}
			bw := baseWrap{flyt.NewBaseNode(flyt.WithMaxRetries(cfg.Retries+1+n.ID%2), flyt.WithWait(decoyWait))}
			if n.HasFb {
				h.nodes[i] = &ovrFbNode{baseWrap: bw, fbcb: fbcb{h, n}, retrym: retrym{n}}
			} else {
				h.nodes[i] = &ovrNode{baseWrap: bw, cb: c, retrym: retrym{n}}
			}
		case "val":
			k := 0
			for k < len(valSpec) && valSpec[k] != nil {
				k++
			}
			if k == len(valSpec) {
				h.nodes[i] = &plainNode{c}
				break
			}
			valSpec[k] = n
			h.nodes[i] = valNode(k)
		case "zst":
			k := 0
			for k < len(zstSpec) && zstSpec[k] != nil {
				k++
			}
			if k == len(zstSpec) {
				h.nodes[i] = &plainNode{c} // more than four: an ordinary plain node
				break
			}
			zstSpec[k] = n
			h.nodes[i] = []flyt.Node{new(zst0), new(zst1), new(zst2), new(zst3)}[k]
		case "plain":
			h.nodes[i] = &plainNode{c}
		case "deco":
			h.nodes[i] = &decoNode{c}
		case "fb":
			h.nodes[i] = &fbNode{fbcb{h, n}}
		case "retry":
			h.nodes[i] = &retryNode{cb: c, retrym: retrym{n}}
		case "retryfb":
			h.nodes[i] = &retryFbNode{fbcb: fbcb{h, n}, retrym: retrym{n}}
		case "func":
			h.nodes[i] = h.buildFunc(n)
		case "batch":
			h.nodes[i] = h.buildBatch(n)
		case "flow":
			if n.Start < 0 || n.Start >= i {
				panic(fmt.Sprintf("flow %d: start %d must be an earlier node", i, n.Start))
			}
			f := flyt.NewFlow(h.nodes[n.Start])
			for _, st := range n.Settings { // a flow's own retry settings, through its exported embedded BaseNode
				switch st.Param {
				case "retries":
					flyt.WithMaxRetries(st.Val)(f.BaseNode)
				case "wait":
					flyt.WithWait(time.Duration(st.Val) * time.Millisecond)(f.BaseNode)
				}
			}
			h.nodes[i] = f
			if n.Wrap != "" {
				h.nodes[i] = &flowWrap{Flow: f, id: n.ID, action: n.Wrap}
			}
		default:
			panic("bad node kind " + n.Kind)
		}
	}
	// connections are made once every node exists: a target may be any node,
	// including the flow itself or a flow that contains it
	for i, n := range h.sc.Nodes {
		if n.Kind != "flow" {
			continue
		}
		f := flowOf(h.nodes[i])
		for _, c := range n.Conns {
			var to flyt.Node
			if c.To >= 0 {
				to = h.nodes[c.To]
			}
			f = f.Connect(h.nodes[c.From], flyt.Action(c.Action), to)
		}
	}
}

type getters interface {
	GetMaxRetries() int
	GetWait() time.Duration
	GetBatchConcurrency() int
	GetBatchErrorHandling() string
}

// reconfigure applies every node's Reconf settings to the already built (and
// already used) node: option functions on the embedded BaseNode, or the
// builder's chained methods.
func (h *harness) reconfigure() {
	any := false
	for i, n := range h.sc.Nodes {
		if f := flowOf(h.nodes[i]); f != nil {
			for _, c := range n.LateConns {
				var to flyt.Node
				if c.To >= 0 {
					to = h.nodes[c.To]
				}
				f.Connect(h.nodes[c.From], flyt.Action(c.Action), to)
			}
		}
		if len(n.Reconf) == 0 {
			continue
		}
		any = true
		var base *flyt.BaseNode
		nb, _ := h.nodes[i].(*flyt.NodeBuilder)
		bb, _ := h.nodes[i].(*flyt.BatchNodeBuilder)
		switch x := h.nodes[i].(type) {
		case *flyt.NodeBuilder:
			base = x.BaseNode
		case *flyt.BatchNodeBuilder:
			base = x.BaseNode
		case *baseNode:
			base = x.BaseNode
		case *baseFbNode:
			base = x.BaseNode
		default:
			panic("reconf on a node kind without configuration")
		}
		for _, s := range n.Reconf {
			d := time.Duration(s.Val) * time.Millisecond
			switch {
			case s.Form == "builder" && nb != nil:
				switch s.Param {
				case "retries":
					nb.WithMaxRetries(s.Val)
				case "wait":
					nb.WithWait(d)
				case "conc":
					nb.WithBatchConcurrency(s.Val)
				case "stop":
					nb.WithBatchErrorHandling(s.Val == 0)
				}
			case s.Form == "builder" && bb != nil:
				switch s.Param {
				case "retries":
					bb.WithMaxRetries(s.Val)
				case "wait":
					bb.WithWait(d)
				case "conc":
					bb.WithBatchConcurrency(s.Val)
				case "stop":
					bb.WithBatchErrorHandling(s.Val == 0)
				}
			default:
				switch s.Param {
				case "retries":
					flyt.WithMaxRetries(s.Val)(base)
				case "wait":
					flyt.WithWait(d)(base)
				case "conc":
					flyt.WithBatchConcurrency(s.Val)(base)
				case "stop":
					flyt.WithBatchErrorHandling(s.Val == 0)(base)
				}
			}
		}
	}
	if any {
		h.emitCfg(1)
	}
}

func (h *harness) emitCfg(phase int) {
	for i, n := range h.nodes {
		if g, ok := n.(getters); ok && h.sc.Nodes[i].Kind != "flow" {
			simrt.Emit(simrt.Event{Kind: "cfg", N: i, V: phase, S1: fmt.Sprintf("retries=%d wait=%s conc=%d errh=%s", g.GetMaxRetries(), g.GetWait(), g.GetBatchConcurrency(), g.GetBatchErrorHandling())})
		}
	}
}

// errShutdown is the custom cause of the "cause" context implementation.
var errShutdown = errors.New("shutdown requested")

// linkedCtx is a hand-written Context: its own Done channel and Err on top of
// a standard cancellable context that stays live (Value, and with it
// context.Cause, still see only that one).
type linkedCtx struct {
	context.Context
	mu    sync.Mutex
	done  chan struct{}
	err   error
	dl    time.Time
	hasDl bool
}

func (c *linkedCtx) Done() <-chan struct{} { return c.done }
func (c *linkedCtx) Err() error {
	c.mu.Lock()
	defer c.mu.Unlock()
	return c.err
}
func (c *linkedCtx) Deadline() (time.Time, bool) {
	if c.hasDl {
		return c.dl, true
	}
	return c.Context.Deadline()
}
func (c *linkedCtx) end(err error) {
	c.mu.Lock()
	if c.err == nil {
		c.err = err
		close(c.done)
	}
	c.mu.Unlock()
}

// runMain is the body of the main simulated task.
func (h *harness) runMain() {
	sc := h.sc
	h.store = flyt.NewSharedStore()
	base := context.Background()
	deadline := time.Now().Add(time.Duration(sc.Ctx.DeadlineUs) * time.Microsecond)
	if (sc.Ctx.Kind == "cancel" || sc.Ctx.Kind == "") && sc.Ctx.DeadlineUs > 0 {
		// a context that is cancelled explicitly and also carries a (later) deadline
		var stop context.CancelFunc
		base, stop = context.WithDeadline(base, deadline)
		defer stop()
	}
	switch sc.Ctx.Kind + "/" + sc.Ctx.Impl {
	case "/", "cancel/", "precancel/":
		h.ctx, h.cancel = context.WithCancel(base)
	case "deadline/", "predeadline/":
		h.ctx, h.cancel = context.WithDeadline(base, deadline)
	case "/cause", "cancel/cause", "precancel/cause":
		ctx, cancel := context.WithCancelCause(base)
		h.ctx, h.cancel = ctx, func() { cancel(errShutdown) }
	case "deadline/cause", "predeadline/cause":
		h.ctx, h.cancel = context.WithDeadlineCause(base, deadline, errShutdown)
	case "/custom", "cancel/custom", "precancel/custom", "deadline/custom", "predeadline/custom":
		live, stop := context.WithCancel(base)
		lc := &linkedCtx{Context: live, done: make(chan struct{})}
		h.ctx, h.cancel = lc, func() { lc.end(context.Canceled) }
		if strings.HasSuffix(sc.Ctx.Kind, "deadline") {
			lc.dl, lc.hasDl = deadline, true
			tm := time.AfterFunc(time.Until(deadline), func() { lc.end(context.DeadlineExceeded) })
			defer tm.Stop()
		}
		defer stop()
	default:
		panic("bad ctx kind " + sc.Ctx.Kind + "/" + sc.Ctx.Impl)
	}
	defer h.cancel()
	h.build()
	if sc.Prop == "C19" {
		h.emitCfg(0)
	}
	switch sc.Ctx.Kind {
	case "precancel":
		simrt.Emit(simrt.Event{Kind: "cancel", N: -1})
		h.cancel()
	case "predeadline":
		time.Sleep(time.Duration(sc.Ctx.DeadlineUs)*time.Microsecond + time.Millisecond)
		simrt.Emit(simrt.Event{Kind: "cancel", N: -1})
	}
	if c := sc.Canceller; c != nil {
		simrt.Go("canceller", func() {
			if c.Kind == "time" {
				time.Sleep(time.Duration(c.AtUs) * time.Microsecond)
			}
			simrt.Emit(simrt.Event{Kind: "cancel", N: -2})
			h.cancel()
		})
	}
	runs := sc.Runs
	if runs < 1 {
		runs = 1
	}
	for r := 0; r < runs; r++ {
		h.runIdx = r
		if r == 1 {
			h.reconfigure()
		}
		h.ctxMu.Lock()
		h.ctxSeen = nil
		h.ctxMu.Unlock()
		for _, st := range h.st {
			st.open = false
		}
		simrt.Emit(simrt.Event{Kind: "run_start", N: r})
		var action flyt.Action
		var err error
		flags := ""
		runStore := h.store
		if sc.NilStore {
			runStore = nil
		}
		func() {
			defer func() {
				// only a panic the scenario scripted is taken as the run's outcome
				if p := recover(); p != nil {
					if msg, ok := p.(string); !ok || !strings.HasPrefix(msg, "scripted panic") {
						panic(p)
					}
					action, err, flags = "", fmt.Errorf("%v", p), "panicked"
				}
			}()
			if sc.Via == "flowrun" {
				err = flowOf(h.nodes[sc.Root]).Run(h.ctx, runStore)
				action = "(flow.Run)"
			} else {
				action, err = flyt.Run(h.ctx, h.nodes[sc.Root], runStore)
			}
		}()
		if cerr := h.ctx.Err(); flags == "" && cerr != nil && err != nil && errors.Is(err, cerr) {
			flags = "matches-ctx"
		}
		simrt.Emit(simrt.Event{Kind: "run_end", N: r, S1: string(action), S2: h.reg.describeErr(err), S3: flags})
	}
	all := h.store.GetAll()
	keys := make([]string, 0, len(all))
	for k := range all {
		keys = append(keys, k)
	}
	sort.Strings(keys)
	var parts []string
	for _, k := range keys {
		parts = append(parts, fmt.Sprintf("%s=%v", k, all[k]))
	}
	simrt.Emit(simrt.Event{Kind: "store", S1: strings.Join(parts, " ")})
}
