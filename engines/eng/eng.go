// Package eng is the part shared by all simulation engines: seed derivation,
// the search / shrink / replay modes of an engine process, statistics.
package eng

import (
	"runtime"
	"bufio"
	"encoding/binary"
	"encoding/json"
	"fmt"
	"hash/fnv"
	"math/rand/v2"
	"os"
	"sort"
	"strconv"
	"strings"
	"testing"
	"time"

	"verif.local/simrt"
)

// Violation is a property violation found in one run.
type Violation struct {
	Prop  string `json:"property"`
	Class string `json:"class"` // property id + oracle clause; shrinking preserves it
	Msg   string `json:"message"`
}

// Outcome is what an engine reports for one executed scenario.
type Outcome struct {
	V          *Violation
	Res        *simrt.Result
	Nontrivial bool
	Shape      uint64         // hash of the scenario shape (combined with the schedule signature)
	Faults     map[string]int // fault kinds that actually fired
	Probes     map[string]int // rare conditions reached
	Summary    any            // small per-run summary for samples (return values etc.)
}

// Spec is what an engine provides.
type Spec struct {
	Name   string
	Gen    func(prop, tier string, r *rand.Rand, idx int) any
	Run    func(t *testing.T, prop string, sc any, cfg simrt.Config) *Outcome
	Decode func(b []byte) (any, error)
	Shrink func(sc any) []any
	Corpus func(prop, tier string) []any
	// Probes that must be > 0 in a thorough run of prop (else exit 2).
	MustReach func(prop string) []string
}

// Found is a violation with everything needed to reproduce it.
type Found struct {
	Violation
	Engine   string          `json:"engine"`
	BaseSeed uint64          `json:"seed"`
	Index    int             `json:"run_index"`
	RunSeed  uint64          `json:"run_seed"` // seeds MapKeys permutations during replay
	Scenario json.RawMessage `json:"scenario"`
	Tape     []int           `json:"tape"`
	Events   []simrt.Event   `json:"events,omitempty"`
	LogHash  string          `json:"log_hash"`
	Blocked  []string        `json:"blocked,omitempty"`
	Panics   []string        `json:"panics,omitempty"`
	Shrunk   *ShrinkInfo     `json:"shrunk,omitempty"`
	Source   string          `json:"source_sha,omitempty"`
	Corpus   bool            `json:"from_corpus,omitempty"`
	// Procs: GOMAXPROCS of the process that found it (the library may consult
	// it; shrinking and replay run with the same value).
	Procs int `json:"gomaxprocs,omitempty"`
}

type ShrinkInfo struct {
	FromScenarioBytes int `json:"from_scenario_bytes"`
	ToScenarioBytes   int `json:"to_scenario_bytes"`
	FromTape          int `json:"from_tape"`
	ToTape            int `json:"to_tape"`
	Candidates        int `json:"candidates_tried"`
}

// Sample is one fully written-out run for the evidence file.
type Sample struct {
	Index    int             `json:"run_index"`
	Scenario json.RawMessage `json:"scenario"`
	Strategy string          `json:"strategy"`
	TapeHead []int           `json:"tape_prefix"`
	Events   []simrt.Event   `json:"events"`
	Summary  any             `json:"summary,omitempty"`
}

// Stats is what a search worker writes.
type Stats struct {
	Runs          int            `json:"runs"`
	CorpusRuns    int            `json:"corpus_runs"`
	Nontrivial    int            `json:"nontrivial"`
	SimTimeNs     int64          `json:"sim_time_ns"`
	Steps         int64          `json:"steps"`
	Decisions     int64          `json:"decisions"`
	EnabledSum    int64          `json:"enabled_sum"`
	Strategies    map[string]int `json:"strategies"`
	Faults        map[string]int `json:"faults"`
	Probes        map[string]int `json:"probes"`
	Reruns        int            `json:"determinism_reruns"`
	Mismatches    int            `json:"determinism_mismatches"`
	Samples       []Sample       `json:"samples"`
	Found         *Found         `json:"found,omitempty"`
	WallS         float64        `json:"wall_s"`
	SigFile       string         `json:"sig_file"`
	TimedOut      bool           `json:"timed_out"`
	MismatchNotes []string       `json:"mismatch_notes,omitempty"`
	KnownHits     int            `json:"known_finding_hits"`
}

func SplitMix(x uint64) uint64 {
	x += 0x9e3779b97f4a7c15
	x = (x ^ (x >> 30)) * 0xbf58476d1ce4e5b9
	x = (x ^ (x >> 27)) * 0x94d049bb133111eb
	return x ^ (x >> 31)
}

func RunSeed(base uint64, idx int) uint64 {
	return SplitMix(base ^ SplitMix(uint64(idx)+0x1234))
}

func LogHash(ev []simrt.Event, extra ...string) string {
	h := fnv.New64a()
	for _, e := range ev {
		fmt.Fprintf(h, "%d|%d|%s|%s|%d|%d|%d|%d|%s|%s|%s\n", e.Seq, e.T, e.Task, e.Kind, e.N, e.V, e.A, e.I, e.S1, e.S2, e.S3)
	}
	for _, x := range extra {
		h.Write([]byte(x))
	}
	return fmt.Sprintf("%016x", h.Sum64())
}

func envInt(name string, def int) int {
	if v := os.Getenv(name); v != "" {
		n, err := strconv.Atoi(v)
		if err != nil {
			fatal("bad %s=%q", name, v)
		}
		return n
	}
	return def
}

func envU64(name string, def uint64) uint64 {
	if v := os.Getenv(name); v != "" {
		n, err := strconv.ParseUint(v, 10, 64)
		if err != nil {
			fatal("bad %s=%q", name, v)
		}
		return n
	}
	return def
}

func fatal(format string, a ...any) {
	fmt.Fprintf(os.Stderr, "engine: "+format+"\n", a...)
	os.Exit(2)
}

func writeJSON(path string, v any) {
	b, err := json.Marshal(v)
	if err != nil {
		fatal("marshal: %v", err)
	}
	if err := os.WriteFile(path, b, 0o644); err != nil {
		fatal("write %s: %v", path, err)
	}
}

func mkFound(spec *Spec, prop string, sc any, o *Outcome, base uint64, idx int, runSeed uint64) *Found {
	raw, _ := json.Marshal(sc)
	return &Found{
		Violation: *o.V, Engine: spec.Name, BaseSeed: base, Index: idx, RunSeed: runSeed,
		Scenario: raw, Tape: o.Res.Tape, Events: o.Res.Events, LogHash: LogHash(o.Res.Events),
		Blocked: o.Res.Blocked, Panics: o.Res.Panics, Procs: runtime.GOMAXPROCS(0),
	}
}

// KnownFinding identifies one recorded genuine defect that is not repaired:
// exactly this violation class with this text in its message is not reported
// again (a different violation of the same property still is).
type KnownFinding struct {
	Class string `json:"class"`
	Sig   string `json:"sig"`
}

func loadKnown() []KnownFinding {
	var k []KnownFinding
	if v := os.Getenv("SIM_KNOWN"); v != "" {
		if err := json.Unmarshal([]byte(v), &k); err != nil {
			fatal("bad SIM_KNOWN: %v", err)
		}
	}
	return k
}

func isKnown(known []KnownFinding, v *Violation) bool {
	for _, k := range known {
		if v.Class == k.Class && strings.Contains(v.Msg, k.Sig) {
			return true
		}
	}
	return false
}

// Main is the body of an engine's single test function.
func Main(t *testing.T, spec *Spec) {
	mode := os.Getenv("SIM_MODE")
	if mode == "" {
		t.Skip("engine binaries are driven by /verif/check (SIM_MODE unset)")
	}
	// a real-time watchdog outside any bubble: infrastructure trouble is exit 2
	wd := envInt("SIM_WATCHDOG_S", 3600)
	go func() {
		time.Sleep(time.Duration(wd) * time.Second)
		fmt.Fprintf(os.Stderr, "engine: watchdog: no completion after %ds (a task blocked outside the simulator's sight?)\n", wd)
		os.Exit(2)
	}()
	switch mode {
	case "search":
		search(t, spec)
	case "shrink":
		shrink(t, spec)
	case "replay":
		replay(t, spec)
	default:
		fatal("unknown SIM_MODE %q", mode)
	}
}

func search(t *testing.T, spec *Spec) {
	prop := os.Getenv("SIM_PROP")
	tier := os.Getenv("SIM_TIER")
	base := envU64("SIM_SEED", 1)
	start := envInt("SIM_START", 0)
	stride := envInt("SIM_STRIDE", 1)
	count := envInt("SIM_COUNT", 1000)
	deadline := time.Now().Add(time.Duration(envInt("SIM_BUDGET_S", 600)) * time.Second)
	out := os.Getenv("SIM_OUT")
	t0 := time.Now()
	st := &Stats{Strategies: map[string]int{}, Faults: map[string]int{}, Probes: map[string]int{}}
	known := loadKnown()
	st.SigFile = out + ".sigs"
	sf, err := os.Create(st.SigFile)
	if err != nil {
		fatal("%v", err)
	}
	sw := bufio.NewWriter(sf)
	var hl *bufio.Writer
	if os.Getenv("SIM_HASHLOG") != "" {
		hf, err := os.Create(out + ".hashlog")
		if err != nil {
			fatal("%v", err)
		}
		defer hf.Close()
		hl = bufio.NewWriter(hf)
		defer hl.Flush()
	}
	account := func(sc any, o *Outcome, idx int) {
		r := o.Res
		st.SimTimeNs += int64(r.SimTime)
		st.Steps += int64(r.Steps)
		st.Decisions += int64(r.Decisions)
		st.EnabledSum += int64(r.EnabledSum)
		st.Strategies[r.Strategy]++
		for k, v := range o.Faults {
			st.Faults[k] += v
		}
		for k, v := range o.Probes {
			st.Probes[k] += v
		}
		for k, v := range r.Probes {
			st.Probes[k] += v
		}
		if o.Nontrivial {
			st.Nontrivial++
			var b [8]byte
			binary.LittleEndian.PutUint64(b[:], o.Shape^SplitMix(r.Sig))
			sw.Write(b[:])
			if len(st.Samples) < 2 {
				raw, _ := json.Marshal(sc)
				head := r.Tape
				if len(head) > 40 {
					head = head[:40]
				}
				ev := r.Events
				if len(ev) > 120 {
					ev = ev[:120]
				}
				st.Samples = append(st.Samples, Sample{Index: idx, Scenario: raw, Strategy: r.Strategy, TapeHead: head, Events: ev, Summary: o.Summary})
			}
		}
	}
	finish := func() {
		sw.Flush()
		sf.Close()
		st.WallS = time.Since(t0).Seconds()
		writeJSON(out, st)
	}
	// deterministic preface corpus: split among workers by index
	if spec.Corpus != nil {
		for ci, sc := range spec.Corpus(prop, tier) {
			if ci%stride != start {
				continue
			}
			seed := RunSeed(base^0xc0ffee, ci)
			o := spec.Run(t, prop, sc, simrt.Config{Seed: seed})
			st.CorpusRuns++
			if o.V != nil && isKnown(known, o.V) {
				st.KnownHits++
				o.V = nil
			}
			account(sc, o, -1-ci)
			if o.V != nil {
				st.Found = mkFound(spec, prop, sc, o, base, -1-ci, seed)
				st.Found.Corpus = true
				finish()
				return
			}
		}
	}
	for k := 0; k < count; k++ {
		idx := start + k*stride
		if k%64 == 0 && time.Now().After(deadline) {
			st.TimedOut = true
			break
		}
		seed := RunSeed(base, idx)
		sc := spec.Gen(prop, tier, rand.New(rand.NewPCG(seed, 1)), idx)
		if os.Getenv("SIM_RACE") != "" {
			// the race detector ends the process on a report: leave the workload in flight behind
			raw, _ := json.Marshal(sc)
			writeJSON(out+".current", &Found{Engine: spec.Name, BaseSeed: base, Index: idx, RunSeed: seed, Scenario: raw})
		}
		o := spec.Run(t, prop, sc, simrt.Config{Seed: seed})
		st.Runs++
		cls1 := ""
		if o.V != nil {
			cls1 = o.V.Class
		}
		if o.V != nil && isKnown(known, o.V) {
			st.KnownHits++
			o.V = nil
		}
		account(sc, o, idx)
		if hl != nil {
			vc := ""
			if o.V != nil {
				vc = o.V.Class
			}
			fmt.Fprintf(hl, "%d %s %d %s\n", idx, LogHash(o.Res.Events), len(o.Res.Tape), vc)
		}
		if o.V != nil {
			st.Found = mkFound(spec, prop, sc, o, base, idx, seed)
			break
		}
		if k%50 == 7 && os.Getenv("SIM_RACE") == "" { // determinism recheck: same (scenario, seed) must give the same log
			sc2 := spec.Gen(prop, tier, rand.New(rand.NewPCG(seed, 1)), idx)
			o2 := spec.Run(t, prop, sc2, simrt.Config{Seed: seed})
			st.Reruns++
			cls2 := ""
			if o2.V != nil {
				cls2 = o2.V.Class
			}
			if LogHash(o.Res.Events) != LogHash(o2.Res.Events) || cls1 != cls2 {
				st.Mismatches++
				if len(st.MismatchNotes) < 3 {
					st.MismatchNotes = append(st.MismatchNotes, fmt.Sprintf("run %d seed %d", idx, seed))
				}
			}
		}
	}
	finish()
}

func loadFound(spec *Spec) (*Found, any) {
	in := os.Getenv("SIM_IN")
	b, err := os.ReadFile(in)
	if err != nil {
		fatal("read %s: %v", in, err)
	}
	var f Found
	if err := json.Unmarshal(b, &f); err != nil {
		fatal("parse %s: %v", in, err)
	}
	sc, err := spec.Decode(f.Scenario)
	if err != nil {
		fatal("decode scenario: %v", err)
	}
	return &f, sc
}

// ReplayResult is printed by replay mode (one JSON line on stdout, prefixed).
type ReplayResult struct {
	Reproduced bool          `json:"reproduced"`
	Class      string        `json:"class"`
	Msg        string        `json:"message"`
	LogHash    string        `json:"log_hash"`
	SameLog    bool          `json:"same_log"`
	Events     []simrt.Event `json:"events,omitempty"`
}

func replay(t *testing.T, spec *Spec) {
	f, sc := loadFound(spec)
	if os.Getenv("SIM_RACE") != "" {
		for i := 0; i < 20; i++ {
			spec.Run(t, f.Prop, sc, simrt.Config{Seed: f.RunSeed})
		}
	}
	o := spec.Run(t, f.Prop, sc, simrt.Config{Seed: f.RunSeed, Tape: f.Tape, Replay: true})
	rr := ReplayResult{LogHash: LogHash(o.Res.Events)}
	if o.V != nil {
		rr.Class = o.V.Class
		rr.Msg = o.V.Msg
		rr.Reproduced = o.V.Class == f.Class
	}
	rr.SameLog = rr.LogHash == f.LogHash
	if os.Getenv("SIM_VERBOSE") != "" {
		rr.Events = o.Res.Events
	}
	writeJSON(os.Getenv("SIM_OUT"), rr)
}

func shrink(t *testing.T, spec *Spec) {
	f, sc := loadFound(spec)
	budget := envInt("SIM_SHRINK_CANDIDATES", 3000)
	deadline := time.Now().Add(time.Duration(envInt("SIM_BUDGET_S", 90)) * time.Second)
	tried := 0
	cls := f.Class
	curSc, curTape := sc, append([]int(nil), f.Tape...)
	var curOut *Outcome
	try := func(s any, tape []int) *Outcome {
		tried++
		o := spec.Run(t, f.Prop, s, simrt.Config{Seed: f.RunSeed, Tape: tape, Replay: true})
		if o.V != nil && o.V.Class == cls {
			return o
		}
		return nil
	}
	curOut = try(curSc, curTape)
	if curOut == nil {
		fatal("shrink: the recorded (scenario, tape) does not reproduce class %s: determinism failure", cls)
	}
	size := func(s any) int { b, _ := json.Marshal(s); return len(b) }
	info := &ShrinkInfo{FromScenarioBytes: size(sc), FromTape: len(f.Tape)}
	over := func() bool { return tried >= budget || time.Now().After(deadline) }
	trimZeros := func(tp []int) []int {
		for len(tp) > 0 && tp[len(tp)-1] == 0 {
			tp = tp[:len(tp)-1]
		}
		return tp
	}
	shrinkTape := func() bool {
		improved := false
		curTape = trimZeros(curTape)
		// truncate: binary search for a short reproducing prefix
		lo, hi := 0, len(curTape)
		for lo < hi && !over() {
			mid := (lo + hi) / 2
			if o := try(curSc, curTape[:mid]); o != nil {
				hi, curOut, improved = mid, o, true
			} else {
				lo = mid + 1
			}
		}
		curTape = trimZeros(append([]int(nil), curTape[:hi]...))
		// zero single entries from the back
		for i := len(curTape) - 1; i >= 0 && !over(); i-- {
			if i >= len(curTape) || curTape[i] == 0 {
				continue
			}
			cand := append([]int(nil), curTape...)
			cand[i] = 0
			cand = trimZeros(cand)
			if o := try(curSc, cand); o != nil {
				curTape, curOut, improved = cand, o, true
			}
		}
		return improved
	}
	for round := 0; round < 20 && !over(); round++ {
		improved := shrinkTape()
		if spec.Shrink != nil {
		again:
			for !over() {
				cands := spec.Shrink(curSc)
				sort.SliceStable(cands, func(i, j int) bool { return size(cands[i]) < size(cands[j]) })
				for _, c := range cands {
					if over() {
						break again
					}
					if o := try(c, curTape); o != nil {
						curSc, curOut, improved = c, o, true
						curTape = trimZeros(append([]int(nil), o.Res.Tape...))
						continue again
					}
					if o := try(c, nil); o != nil {
						curSc, curOut, curTape, improved = c, o, nil, true
						continue again
					}
				}
				break
			}
		}
		if !improved {
			break
		}
	}
	info.ToScenarioBytes = size(curSc)
	info.ToTape = len(curTape)
	info.Candidates = tried
	raw, _ := json.Marshal(curSc)
	nf := *f
	nf.Scenario = raw
	nf.Tape = curTape
	nf.Msg = curOut.V.Msg
	nf.Events = curOut.Res.Events
	nf.LogHash = LogHash(curOut.Res.Events)
	nf.Blocked = curOut.Res.Blocked
	nf.Panics = curOut.Res.Panics
	nf.Shrunk = info
	writeJSON(os.Getenv("SIM_OUT"), &nf)
}
