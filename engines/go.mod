module verif.local/engines

go 1.23

require (
	github.com/anishathalye/porcupine v1.3.0
	github.com/mark3labs/flyt v0.0.0
	verif.local/simrt v0.0.0
)
