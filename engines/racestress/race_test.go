// racestress is the auxiliary, clearly separate pass for the memory-model half
// of C12 ("effects visible to the waiter") and C13 ("never race"): the
// UNINSTRUMENTED tree, real goroutines, the Go race detector, seeded
// workloads. It is runtime monitoring, not simulation (DESIGN.md 2.6): it has
// no false positives, and re-detection on replay is likely, not guaranteed.
package racestress

import (
	"encoding/json"
	"fmt"
	"math/rand/v2"
	"sync"
	"testing"

	"github.com/mark3labs/flyt"
	"verif.local/engines/eng"
	"verif.local/simrt"
)

type Scn struct {
	Prop    string `json:"prop"`
	Seed    uint64 `json:"seed"`
	Workers int    `json:"workers"` // store clients / pool size
	Ops     int    `json:"ops"`     // operations per client / tasks
	Subs    int    `json:"submitters"`
	Rounds  int    `json:"rounds"`
	Keys    int    `json:"keys"`
}

func gen(prop, tier string, r *rand.Rand, idx int) any {
	sc := &Scn{Prop: prop, Seed: r.Uint64()}
	switch prop {
	case "C13":
		sc.Workers = 2 + r.IntN(5)
		sc.Ops = 50 + r.IntN(400)
		sc.Keys = 1 + r.IntN(6)
	default: // C12
		sc.Workers = -1 + r.IntN(10)
		sc.Ops = r.IntN(300)
		sc.Subs = 1 + r.IntN(4)
		sc.Rounds = 1 + r.IntN(3)
	}
	return sc
}

func decode(b []byte) (any, error) {
	var sc Scn
	err := json.Unmarshal(b, &sc)
	return &sc, err
}

func storeStress(sc *Scn) {
	st := flyt.NewSharedStore()
	var wg sync.WaitGroup
	for c := 0; c < sc.Workers; c++ {
		wg.Add(1)
		go func(c int) {
			defer wg.Done()
			r := rand.New(rand.NewPCG(sc.Seed, uint64(c)))
			var snap map[string]any
			for i := 0; i < sc.Ops; i++ {
				k := fmt.Sprintf("k%d", r.IntN(sc.Keys))
				switch r.IntN(14) {
				case 0, 1, 2:
					st.Set(k, c*100000+i)
				case 3, 4:
					st.Get(k)
				case 5:
					st.Has(k)
				case 6:
					st.Delete(k)
				case 7:
					st.Len()
				case 8:
					ks := st.Keys()
					for j := range ks {
						ks[j] = "x"
					}
				case 9:
					snap = st.GetAll()
					snap["mine"] = c
				case 10:
					st.Merge(map[string]any{k: i, "m": c})
					if snap != nil {
						st.Merge(snap)
						snap["after"] = i
					}
				case 11:
					st.Clear()
				case 12:
					st.GetInt(k)
					st.GetString(k)
				case 13:
					st.GetSlice(k)
					st.GetMap(k)
				}
			}
		}(c)
	}
	wg.Wait()
}

func poolStress(sc *Scn) (sum, want int) {
	pool := flyt.NewWorkerPool(sc.Workers)
	n := 0
	for r := 0; r < sc.Rounds; r++ {
		results := make([]int, sc.Ops*sc.Subs) // plain memory written by tasks, read by the waiter
		var join sync.WaitGroup
		for s := 0; s < sc.Subs; s++ {
			join.Add(1)
			go func(s int) {
				defer join.Done()
				for i := 0; i < sc.Ops; i++ {
					slot := s*sc.Ops + i
					pool.Submit(func() { results[slot] = slot + 1 })
				}
			}(s)
		}
		join.Wait()
		pool.Wait()
		for i, v := range results { // the waiter reads what the tasks wrote
			sum += v
			want += i + 1
			n++
		}
	}
	pool.Close()
	return sum, want
}

func run(t *testing.T, prop string, x any, cfg simrt.Config) *eng.Outcome {
	sc := x.(*Scn)
	o := &eng.Outcome{Res: &simrt.Result{Strategy: "real-goroutines"}, Faults: map[string]int{}, Probes: map[string]int{}, Nontrivial: true, Shape: sc.Seed}
	switch prop {
	case "C13":
		storeStress(sc)
	default:
		if sum, want := poolStress(sc); sum != want {
			o.V = &eng.Violation{Prop: prop, Class: prop + ".effects-not-visible", Msg: fmt.Sprintf("after Wait the waiter read task results summing to %d, expected %d", sum, want)}
		}
	}
	o.Res.Steps = sc.Ops * max(sc.Workers, 1)
	return o
}

func TestSim(t *testing.T) {
	eng.Main(t, &eng.Spec{Name: "racestress", Gen: gen, Run: run, Decode: decode})
}
