// poolsim drives flyt.WorkerPool directly under the seeded scheduler
// (properties C12 and the pool half of C08). DESIGN.md section 3.2.
package poolsim

import (
	"encoding/json"
	"runtime"
	"fmt"
	"math/rand/v2"
	"testing"
	"time"

	"github.com/mark3labs/flyt"
	"verif.local/engines/eng"
	"verif.local/simrt"
	"verif.local/simrt/simsync"
)

type Task struct {
	ID      int  `json:"id"`
	SleepMs int  `json:"sleep_ms,omitempty"`
	Dep     bool `json:"dep,omitempty"` // mode "dep": parks until all Dep tasks of its round have started
	// Child: while it runs, the task submits this follow-up task to the same pool
	// (typically while the waiter is already inside Wait).
	Child *Task `json:"child,omitempty"`
	// Goexit: the task ends its goroutine with runtime.Goexit (what t.Fatal does
	// inside a task): it has finished, and it has finished once.
	Goexit bool `json:"goexit,omitempty"`
}

type Round struct {
	Subs [][]Task `json:"subs"` // Subs[0] is submitted by the waiter itself when MainSubmits
	// Late submitters keep submitting while the waiter is already inside Wait:
	// Wait must still cover every task whose Submit had returned before Wait was called.
	Late [][]Task `json:"late,omitempty"`
	// Waiters: additional goroutines that call Wait at the same time as the main
	// waiter; Wait is a barrier for every one of them.
	Waiters int `json:"waiters,omitempty"`
}

type Scn struct {
	Size        int     `json:"size"`
	Mode        string  `json:"mode"` // free | barrier | last
	MainSubmits bool    `json:"main_submits"`
	Rounds      []Round `json:"rounds"`
	// CloseEarly: the last round is closed without a Wait, while workers are busy
	// and tasks are queued (all Submit calls have returned). Queued tasks may be
	// dropped; the in-flight limit holds throughout.
	CloseEarly bool `json:"close_early,omitempty"`
	// CloseDuringWait: in the last round another goroutine closes the pool while
	// the waiter is inside Wait and every task of the round is still running
	// (none is queued). Close does not interrupt tasks: Wait still returns only
	// after they have finished.
	CloseDuringWait bool `json:"close_during_wait,omitempty"`
}

func gen(prop, tier string, r *rand.Rand, idx int) any {
	sc := &Scn{}
	switch r.IntN(8) {
	case 0:
		sc.Size = -1 + r.IntN(2) // -1, 0
	case 1, 2:
		sc.Size = 1 + r.IntN(2)
	default:
		sc.Size = 1 + r.IntN(16)
	}
	if prop == "C19" {
		sc.Size = -r.IntN(4) // the documented default: a size <= 0 means one worker
	}
	eff := sc.Size
	if eff < 1 {
		eff = 1
	}
	switch r.IntN(4) {
	case 0:
		sc.Mode = "barrier"
	case 1:
		sc.Mode = "last"
	default:
		sc.Mode = "free"
	}
	if prop == "C08" {
		sc.Mode = []string{"barrier", "dep", "dep", "free"}[r.IntN(4)]
	}
	if prop == "C12" && r.IntN(6) == 0 {
		sc.Mode = "dep" // tasks that depend on each other: every submitted task gets a worker as soon as one is idle
	}
	nrOverride := 0
	nr := 1 + r.IntN(3)
	id := 0
	// task counts: biased small, sometimes far beyond the queue
	maxTasks := []int{0, 1, 3, 3 * eff, 4*eff + 8, 60}[r.IntN(6)]
	if tier == "thorough" && r.IntN(40) == 0 {
		maxTasks = 500
	}
	if prop == "C12" && r.IntN(60) == 0 {
		// back-pressure: a small pool whose workers are all parked is offered far more than any buffer
		sc.Size = 1 + r.IntN(3)
		eff = sc.Size
		sc.Mode = "last"
		maxTasks = 200 + r.IntN(100)
		nrOverride = 1
	}
	if nrOverride > 0 {
		nr = nrOverride
	}
	for i := 0; i < nr; i++ {
		ns := 1 + r.IntN(4)
		if r.IntN(3) == 0 || nrOverride > 0 {
			ns = 1
		}
		rd := Round{}
		left := maxTasks
		for s := 0; s < ns; s++ {
			n := 0
			if left > 0 {
				n = r.IntN(left + 1)
				if (s == ns-1 && r.IntN(2) == 0) || nrOverride > 0 {
					n = left
				}
			}
			left -= n
			var ts []Task
			for k := 0; k < n; k++ {
				tk := Task{ID: id}
				id++
				if sc.Mode == "free" && r.IntN(3) == 0 {
					tk.SleepMs = 1 + r.IntN(20)
				}
				ts = append(ts, tk)
			}
			rd.Subs = append(rd.Subs, ts)
		}
		if r.IntN(4) == 0 && nrOverride == 0 {
			rd.Waiters = 1 + r.IntN(2)
		}
		if sc.Mode != "barrier" && r.IntN(3) == 0 && nrOverride == 0 {
			nl := 1 + r.IntN(2)
			for s := 0; s < nl; s++ {
				var ts []Task
				for k := r.IntN(6); k >= 0; k-- {
					ts = append(ts, Task{ID: id})
					id++
				}
				rd.Late = append(rd.Late, ts)
			}
		}
		sc.Rounds = append(sc.Rounds, rd)
	}
	sc.MainSubmits = r.IntN(2) == 0
	if prop == "C12" && eff >= 2 && sc.Mode == "free" && r.IntN(8) == 0 {
		// up to size-1 tasks end their worker goroutine with runtime.Goexit: the
		// pool has fewer workers from then on, and every task still counts once
		left := eff - 1
		for ri := range sc.Rounds {
			for si := range sc.Rounds[ri].Subs {
				for ti := range sc.Rounds[ri].Subs[si] {
					if left > 0 && r.IntN(4) == 0 {
						sc.Rounds[ri].Subs[si][ti].Goexit = true
						left--
					}
				}
			}
		}
	}
	if prop == "C12" && r.IntN(6) == 0 {
		// follow-up submission from inside running tasks: at most max(size,1) tasks
		// per round (they all start at once, the queue is empty), each may submit
		// one child to the same pool - which cannot fill the queue
		sc.Mode = "free"
		sc.Rounds = nil
		for i := 1 + r.IntN(2); i > 0; i-- {
			var ts []Task
			for k := 1 + r.IntN(eff); k > 0; k-- {
				tk := Task{ID: id}
				id++
				if r.IntN(5) < 3 {
					tk.Child = &Task{ID: id}
					id++
				}
				if r.IntN(3) == 0 {
					tk.SleepMs = 1 + r.IntN(10)
				}
				ts = append(ts, tk)
			}
			rd := Round{Subs: [][]Task{ts}}
			if r.IntN(3) == 0 {
				rd.Waiters = 1
			}
			sc.Rounds = append(sc.Rounds, rd)
		}
	}
	if prop == "C12" && r.IntN(8) == 0 {
		sc.Mode = "closegate"
		sc.MainSubmits = r.IntN(2) == 0
		sc.CloseDuringWait = true
		var ts []Task
		for k := 1 + r.IntN(eff); k > 0; k-- { // at most one task per worker: nothing stays queued
			ts = append(ts, Task{ID: id})
			id++
		}
		sc.Rounds = []Round{{Subs: [][]Task{ts}}}
	}
	if prop == "C08" && r.IntN(8) == 0 {
		sc.Mode = []string{"last", "free"}[r.IntN(2)]
		sc.MainSubmits = true
		sc.CloseEarly = true
		var ts []Task
		for k := eff + 1 + r.IntN(2*eff); k > 0; k-- { // busy workers plus a backlog the queue can hold
			tk := Task{ID: id}
			id++
			if sc.Mode == "free" {
				tk.SleepMs = 5 + r.IntN(20)
			}
			ts = append(ts, tk)
		}
		sc.Rounds = []Round{{Subs: [][]Task{ts}}}
	}
	if sc.Mode == "dep" {
		// up to max(size,1) mutually dependent tasks per round, anywhere in the round
		for ri := range sc.Rounds {
			var all []*Task
			for si := range sc.Rounds[ri].Subs {
				for ti := range sc.Rounds[ri].Subs[si] {
					all = append(all, &sc.Rounds[ri].Subs[si][ti])
				}
			}
			k := min(eff, len(all))
			if k > 0 {
				k = 1 + r.IntN(k)
				for _, i := range r.Perm(len(all))[:k] {
					all[i].Dep = true
				}
			}
		}
	}
	return sc
}

func decode(b []byte) (any, error) {
	var sc Scn
	err := json.Unmarshal(b, &sc)
	return &sc, err
}

func clone(sc *Scn) *Scn {
	b, _ := json.Marshal(sc)
	var c Scn
	json.Unmarshal(b, &c)
	return &c
}

func shrinkCands(x any) []any {
	sc := x.(*Scn)
	var out []any
	for i := range sc.Rounds {
		c := clone(sc)
		c.Rounds = append(c.Rounds[:i], c.Rounds[i+1:]...)
		out = append(out, c)
	}
	for i, rd := range sc.Rounds {
		if rd.Waiters > 0 {
			c := clone(sc)
			c.Rounds[i].Waiters--
			out = append(out, c)
		}
		for s := range rd.Late {
			c := clone(sc)
			c.Rounds[i].Late = append(c.Rounds[i].Late[:s], c.Rounds[i].Late[s+1:]...)
			out = append(out, c)
			if n := len(rd.Late[s]); n > 1 {
				c = clone(sc)
				c.Rounds[i].Late[s] = c.Rounds[i].Late[s][:n-1]
				out = append(out, c)
			}
		}
		for s := range rd.Subs {
			if len(rd.Subs) > 1 {
				c := clone(sc)
				c.Rounds[i].Subs = append(c.Rounds[i].Subs[:s], c.Rounds[i].Subs[s+1:]...)
				out = append(out, c)
			}
			if n := len(rd.Subs[s]); n > 0 {
				c := clone(sc)
				c.Rounds[i].Subs[s] = c.Rounds[i].Subs[s][:n/2]
				out = append(out, c)
				c = clone(sc)
				c.Rounds[i].Subs[s] = c.Rounds[i].Subs[s][:n-1]
				out = append(out, c)
			}
			for k, tk := range rd.Subs[s] {
				if tk.Child != nil {
					c := clone(sc)
					c.Rounds[i].Subs[s][k].Child = nil
					out = append(out, c)
				}
				if tk.Goexit {
					c := clone(sc)
					c.Rounds[i].Subs[s][k].Goexit = false
					out = append(out, c)
				}
				if tk.SleepMs > 0 {
					c := clone(sc)
					c.Rounds[i].Subs[s][k].SleepMs = 0
					out = append(out, c)
				}
			}
		}
	}
	if sc.Size > 1 {
		c := clone(sc)
		c.Size--
		out = append(out, c)
		c = clone(sc)
		c.Size = 1
		out = append(out, c)
	}
	if sc.Mode != "free" {
		c := clone(sc)
		c.Mode = "free"
		out = append(out, c)
	}
	if !sc.MainSubmits {
		c := clone(sc)
		c.MainSubmits = true
		out = append(out, c)
	}
	return out
}

type summary struct {
	MaxInFlight int `json:"max_in_flight"`
	Tasks       int `json:"tasks"`
}

func run(t *testing.T, prop string, x any, cfg simrt.Config) *eng.Outcome {
	sc := x.(*Scn)
	eff := sc.Size
	if eff < 1 {
		eff = 1
	}
	// harness state: mutated only inside release handlers (scheduler goroutine)
	started := make([]int, len(sc.Rounds))
	depIn := make([]int, len(sc.Rounds))
	depNeed := make([]int, len(sc.Rounds))
	for ri, rd := range sc.Rounds {
		for _, s := range rd.Subs {
			for _, tk := range s {
				if tk.Dep {
					depNeed[ri]++
				}
			}
		}
	}
	roundOf := map[int]int{}
	late := map[int]bool{}
	total := 0
	need := make([]int, len(sc.Rounds))
	for ri, rd := range sc.Rounds {
		n := 0
		for _, s := range rd.Subs {
			for _, tk := range s {
				roundOf[tk.ID] = ri
				n++
				if tk.Child != nil {
					roundOf[tk.Child.ID] = ri
					total++
				}
			}
		}
		for _, s := range rd.Late {
			for _, tk := range s {
				roundOf[tk.ID] = ri
				late[tk.ID] = true
			}
			total += len(s)
		}
		total += n
		need[ri] = min(eff, n)
	}
	var pool *flyt.WorkerPool
	poolClosed, waitCalled := false, false // (read and written inside the scheduler only)
	o_nested := false
	var body func(tk Task)
	body = func(tk Task) {
		ri := roundOf[tk.ID]
		simrt.EmitThen(simrt.Event{Kind: "task_start", I: tk.ID, N: ri}, func() {
			started[ri]++
			if tk.Dep {
				depIn[ri]++
			}
		})
		switch sc.Mode {
		case "dep":
			if tk.Dep {
				simrt.EmitWhen(simrt.Event{Kind: "task_end", I: tk.ID, N: ri}, func() bool { return depIn[ri] >= depNeed[ri] }, nil)
				return
			}
		case "barrier":
			simrt.EmitWhen(simrt.Event{Kind: "task_end", I: tk.ID, N: ri}, func() bool { return started[ri] >= need[ri] }, nil)
			return
		case "closegate":
			// runs until the pool has been closed, and then until nothing else can make a move
			simrt.YieldCond("task_until_closed", func() bool { return poolClosed }, nil)
			simrt.YieldLast("task_body")
		case "last":
			simrt.YieldLast("task_body")
		default:
			if tk.SleepMs > 0 {
				time.Sleep(time.Duration(tk.SleepMs) * time.Millisecond)
			}
		}
		if ch := tk.Child; ch != nil {
			simrt.Emit(simrt.Event{Kind: "submit_start", I: ch.ID, N: 200})
			pool.Submit(func() { body(*ch) })
			simrt.Emit(simrt.Event{Kind: "submit_end", I: ch.ID, N: 200})
			o_nested = true
		}
		simrt.Emit(simrt.Event{Kind: "task_end", I: tk.ID, N: ri})
		if tk.Goexit {
			runtime.Goexit()
		}
	}
	cfg.Lockset = true // the pool's own fields: no field is written by one task and used by another without a common lock
	res := simrt.Run(t, cfg, func() {
		pool = flyt.NewWorkerPool(sc.Size)
		submitAll := func(si int, ts []Task) {
			for _, tk := range ts {
				simrt.Emit(simrt.Event{Kind: "submit_start", I: tk.ID, N: si})
				pool.Submit(func() { body(tk) })
				simrt.Emit(simrt.Event{Kind: "submit_end", I: tk.ID, N: si})
			}
		}
		for ri, rd := range sc.Rounds {
			var join simsync.WaitGroup
			for si, ts := range rd.Subs {
				if si == 0 && sc.MainSubmits {
					continue
				}
				join.Add(1)
				simrt.Go("submitter", func() {
					defer join.Done()
					submitAll(si, ts)
				})
			}
			if sc.MainSubmits && len(rd.Subs) > 0 {
				submitAll(0, rd.Subs[0])
			}
			join.Wait()
			if sc.CloseEarly && ri == len(sc.Rounds)-1 {
				break
			}
			var lateJoin simsync.WaitGroup
			for si, ts := range rd.Late {
				lateJoin.Add(1)
				simrt.Go("late-submitter", func() {
					defer lateJoin.Done()
					submitAll(100+si, ts)
				})
			}
			var waitJoin simsync.WaitGroup
			for w := 1; w <= rd.Waiters; w++ {
				waitJoin.Add(1)
				simrt.Go("waiter", func() {
					defer waitJoin.Done()
					simrt.Emit(simrt.Event{Kind: "wait_called", N: ri, V: w})
					pool.Wait()
					simrt.Emit(simrt.Event{Kind: "wait_returned", N: ri, V: w})
				})
			}
			var closerJoin simsync.WaitGroup
			if sc.CloseDuringWait && ri == len(sc.Rounds)-1 {
				closerJoin.Add(1)
				n := 0
				for _, s := range rd.Subs {
					n += len(s)
				}
				simrt.Go("closer", func() {
					defer closerJoin.Done()
					simrt.YieldCond("closer_waits", func() bool { return waitCalled && started[ri] >= n }, nil)
					pool.Close()
					simrt.EmitThen(simrt.Event{Kind: "closed"}, func() { poolClosed = true })
				})
			}
			simrt.EmitThen(simrt.Event{Kind: "wait_called", N: ri}, func() { waitCalled = true })
			pool.Wait()
			simrt.Emit(simrt.Event{Kind: "wait_returned", N: ri})
			closerJoin.Wait()
			waitJoin.Wait()
			if len(rd.Late) > 0 {
				lateJoin.Wait()
				pool.Wait()
				simrt.Emit(simrt.Event{Kind: "wait_quiesced", N: ri})
			}
		}
		if !sc.CloseDuringWait {
			pool.Close()
			simrt.Emit(simrt.Event{Kind: "closed"})
		}
	})
	o := &eng.Outcome{Res: res, Faults: map[string]int{}, Probes: map[string]int{}}
	if o_nested {
		o.Faults["task_submits_follow_up"]++
	}
	o.V = oracle(prop, sc, eff, total, roundOf, late, res, o)
	return o
}

func oracle(prop string, sc *Scn, eff, total int, roundOf map[int]int, late map[int]bool, res *simrt.Result, o *eng.Outcome) *eng.Violation {
	viol := func(clause, format string, a ...any) *eng.Violation {
		return &eng.Violation{Prop: prop, Class: prop + "." + clause, Msg: fmt.Sprintf(format, a...)}
	}
	starts := map[int]int{}
	ends := map[int]int{}
	endSeq := map[int]int{}
	inflight, maxIn := 0, 0
	submitted := map[int]bool{}
	coveredBy := map[[2]int]map[int]bool{} // (round, waiter) -> tasks whose Submit had returned when that waiter called Wait
	openSubmits := 0
	closed := false
	var over *eng.Violation
	var barrier *eng.Violation
	var noBackPressure *eng.Violation
	for _, e := range res.Events {
		switch e.Kind {
		case "task_start":
			starts[e.I]++
			inflight++
			if inflight > maxIn {
				maxIn = inflight
			}
			if inflight > eff && over == nil {
				over = viol("upper", "%d tasks in flight at seq %d with a pool of size %d (max(size,1)=%d)", inflight, e.Seq, sc.Size, eff)
			}
		case "task_end":
			if len(ends) == 0 && sc.Mode == "last" && total >= 200 && eff <= 4 && len(submitted) == total && noBackPressure == nil {
				// every worker was parked and far more tasks than any plausible buffer
				// were offered, yet every Submit had returned before a single task finished
				noBackPressure = viol("submit-never-blocks", "all %d Submit calls returned before any task had finished on a pool of %d parked worker(s): submission does not block when the queue is full", total, eff)
			}
			ends[e.I]++
			endSeq[e.I] = e.Seq
			inflight--
			if openSubmits > 0 && sc.Mode == "last" {
				o.Probes["queue_full_submit_blocked"]++
			}
		case "submit_start":
			openSubmits++
		case "submit_end":
			openSubmits--
			submitted[e.I] = true
		case "wait_called":
			cov := map[int]bool{}
			for id := range submitted {
				cov[id] = true
			}
			coveredBy[[2]int{e.N, e.V}] = cov
		case "wait_returned", "wait_quiesced":
			for id, r := range roundOf {
				if r > e.N || barrier != nil || ends[id] > 0 {
					continue
				}
				if e.Kind == "wait_returned" && !coveredBy[[2]int{e.N, e.V}][id] {
					continue // submitted concurrently with this Wait: may or may not be covered
				}
				barrier = viol("barrier", "Wait of round %d (waiter %d) returned at seq %d before task %d (round %d), whose Submit had returned before that Wait was called, finished", e.N, e.V, e.Seq, id, r)
			}
		case "closed":
			closed = true
		}
	}
	if maxIn >= eff && eff > 1 {
		o.Probes["all_workers_busy"]++
	}
	o.Nontrivial = maxIn >= 2 || (eff == 1 && total >= 2)
	o.Shape = uint64(sc.Size+2)*1000003 + uint64(total)*31 + uint64(len(sc.Rounds))
	o.Summary = summary{MaxInFlight: maxIn, Tasks: total}
	if prop == "C08" {
		if over != nil {
			return over
		}
		if res.Deadlock && (sc.Mode == "barrier" || sc.Mode == "dep") && !closed {
			return viol("lower", "barrier workload made no progress: fewer than min(size,n) tasks run simultaneously; blocked: %v", res.Blocked)
		}
		if len(res.Panics) > 0 {
			return viol("panic", "%v", res.Panics)
		}
		return nil
	}
	// C12; for C19 (pool sizes <= 0 only) additionally "one worker": never two tasks at once
	if prop == "C19" && over != nil {
		return over
	}
	if len(res.Panics) > 0 {
		return viol("panic", "%v", res.Panics)
	}
	if len(res.Races) > 0 && prop == "C12" {
		return viol("unsynchronised-access", "%s", res.Races[0])
	}
	if barrier != nil {
		return barrier
	}
	if noBackPressure != nil && prop == "C12" {
		return noBackPressure
	}
	if res.Deadlock || res.StepLimit {
		if closed {
			return viol("leak", "goroutines still alive after Wait+Close: %v", res.Blocked)
		}
		return viol("hang", "run made no progress before Close: %v", res.Blocked)
	}
	for id := range roundOf {
		if starts[id] != 1 || ends[id] != 1 {
			return viol("exactly-once", "task %d started %d times and finished %d times", id, starts[id], ends[id])
		}
	}
	for id := range starts {
		if _, ok := roundOf[id]; !ok {
			return viol("exactly-once", "unknown task %d executed", id)
		}
	}
	return nil
}

func TestSim(t *testing.T) {
	eng.Main(t, &eng.Spec{
		Name: "poolsim", Gen: gen, Run: run, Decode: decode, Shrink: shrinkCands,
		MustReach: func(prop string) []string {
			if prop == "C12" {
				return []string{"queue_full_submit_blocked", "all_workers_busy"}
			}
			return []string{"all_workers_busy"}
		},
	})
}
