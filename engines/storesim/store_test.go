// storesim drives flyt.SharedStore with 1..6 simulated clients (C13, C14).
// DESIGN.md section 3.3.
package storesim

import (
	"errors"
	"encoding/json"
	"math"
	"fmt"
	"math/rand/v2"
	"sort"
	"strconv"
	"strings"
	"testing"
	"time"

	"github.com/anishathalye/porcupine"
	"github.com/mark3labs/flyt"
	"verif.local/engines/eng"
	"verif.local/simrt"
	"verif.local/simrt/simsync"
)

const NK = 96

const bigBase = 1<<53 + 1

// keyNames: eight awkward names, then plain ones (the bulk scenarios of C14 fill
// the store well beyond any small-size fast path).
var keyNames = func() (k [NK]string) {
	// ("a.x1" and "b.x2" look like paths into the nested sections that "a" and "b"
	// may hold - n-codes are maps with the keys x0..x2 - and are keys like any other)
	copy(k[:], []string{"", "a", "ключ", "b", "a.x1", "日本", "b.x2", "\x00z"})
	for i := 8; i < NK; i++ {
		k[i] = "item_" + strconv.Itoa(i)
	}
	return
}()

// Op is one client operation. Values are codes: i<n> int, s<n> string, f<n>
// float64 n+0.5, bt/bf bool, nil; p<n> is a poison string only ever written
// into snapshots the store handed out.
type Op struct {
	Kind string   `json:"k"`
	Key  int      `json:"key,omitempty"`
	Val  string   `json:"val,omitempty"`
	Keys []int    `json:"keys,omitempty"`
	Vals []string `json:"vals,omitempty"`
	Snap int      `json:"snap,omitempty"` // which earlier snapshot of this client (index among its snapshots)
	ID   int      `json:"id,omitempty"`   // unique number for poison values
}

type Scn struct {
	Clients [][]Op `json:"clients"`
	NKeys   int    `json:"nkeys"`
}

func valueOf(code string) any {
	switch {
	case code == "nil":
		return nil
	case code == "bt":
		return true
	case code == "bf":
		return false
	case code == "z0": // the two float zeros: equal under ==, different values
		return 0.0
	case code == "z1":
		return math.Copysign(0, -1)
	case code[0] == 'I': // an integer beyond 2^53 (not representable as a float64): int or int64
		n, _ := strconv.Atoi(code[1:])
		if n%2 == 0 {
			return bigBase + n
		}
		return int64(bigBase + n)
	case code[0] == 'i':
		n, _ := strconv.Atoi(code[1:])
		return n
	case code[0] == 'f':
		n, _ := strconv.Atoi(code[1:])
		return float64(n) + 0.5
	case code[0] == 's':
		return code
	case code[0] == 'p':
		return "POISON" + code[1:]
	case code[0] == 'l': // non-comparable values: a slice, a map
		n, _ := strconv.Atoi(code[1:])
		return []int{n}
	case code[0] == 'm':
		n, _ := strconv.Atoi(code[1:])
		return map[string]int{"v": n}
	case code[0] == 'a': // a slice that already is a []any
		n, _ := strconv.Atoi(code[1:])
		return []any{n}
	case code[0] == 'R': // a flyt.Result is a value like any other: stored and handed back as it is
		return flyt.NewResult("r" + code[1:])
	case code[0] == 'E':
		return flyt.NewErrorResult(errors.New("e" + code[1:]))
	case code[0] == 'n': // a nested section: a map[string]any value (replaced as a whole by Set and Merge)
		n, _ := strconv.Atoi(code[1:])
		return map[string]any{"x" + strconv.Itoa(n%3): n}
	}
	panic("bad code " + code)
}

func codeOf(v any) string {
	switch x := v.(type) {
	case nil:
		return "nil"
	case bool:
		if x {
			return "bt"
		}
		return "bf"
	case int:
		if x > bigBase && x < bigBase+1_000_000 && (x-bigBase)%2 == 0 {
			return "I" + strconv.Itoa(x-bigBase)
		}
		return "i" + strconv.Itoa(x)
	case int64:
		if x > bigBase && x < bigBase+1_000_000 && (x-bigBase)%2 == 1 {
			return "I" + strconv.Itoa(int(x)-bigBase)
		}
	case float64:
		if x == 0 {
			if math.Signbit(x) {
				return "z1"
			}
			return "z0"
		}
		return "f" + strconv.Itoa(int(x))
	case flyt.Result:
		if x.IsError() {
			if m := x.Error().Error(); strings.HasPrefix(m, "e") && x.Value() == nil {
				return "E" + m[1:]
			}
		} else if v, ok := x.Value().(string); ok && strings.HasPrefix(v, "r") {
			return "R" + v[1:]
		}
	case []int:
		if len(x) == 1 {
			return "l" + strconv.Itoa(x[0])
		}
	case []any:
		if len(x) == 1 {
			if n, ok := x[0].(int); ok {
				return "a" + strconv.Itoa(n)
			}
		}
	case map[string]int:
		if len(x) == 1 {
			return "m" + strconv.Itoa(x["v"])
		}
	case map[string]any:
		if len(x) == 1 {
			for k, v := range x {
				if n, ok := v.(int); ok && k == "x"+strconv.Itoa(n%3) {
					return "n" + strconv.Itoa(n)
				}
			}
		}
	case string:
		if strings.HasPrefix(x, "POISON") {
			return "p" + x[6:]
		}
		if strings.HasPrefix(x, "s") {
			return x
		}
	}
	return fmt.Sprintf("?%T:%v", v, v)
}

// state of the reference map: per key the value code, "" = absent
type state [NK]string

func encMap(s state) string {
	var parts []string
	for i, c := range s {
		if c != "" {
			parts = append(parts, strconv.Itoa(i)+"="+c)
		}
	}
	return strings.Join(parts, ",")
}

// apply is the sequential specification: an ordinary map.
func apply(s state, op *Op, snapArg state) (state, string) {
	switch op.Kind {
	case "set":
		s[op.Key] = op.Val
		return s, ""
	case "get":
		if s[op.Key] == "" {
			return s, "absent"
		}
		return s, "v:" + s[op.Key]
	case "has":
		return s, strconv.FormatBool(s[op.Key] != "")
	case "delete":
		s[op.Key] = ""
		return s, ""
	case "len":
		n := 0
		for _, c := range s {
			if c != "" {
				n++
			}
		}
		return s, strconv.Itoa(n)
	case "keys":
		var ks []string
		for i, c := range s {
			if c != "" {
				ks = append(ks, strconv.Itoa(i))
			}
		}
		return s, strings.Join(ks, ",")
	case "getall":
		return s, encMap(s)
	case "merge":
		for i, k := range op.Keys {
			s[k] = op.Vals[i]
		}
		return s, ""
	case "mergenil":
		return s, ""
	case "mergesnap":
		for i, c := range snapArg {
			if c != "" {
				s[i] = c
			}
		}
		return s, ""
	case "clear":
		return state{}, ""
	case "getstring", "getstringor":
		c := s[op.Key]
		if c != "" && c[0] == 's' {
			return s, c
		}
		if op.Kind == "getstringor" {
			return s, "D"
		}
		return s, ""
	case "getint", "getintor":
		c := s[op.Key]
		if c == "z0" || c == "z1" {
			return s, "0"
		}
		if c != "" && c[0] == 'I' {
			n, _ := strconv.Atoi(c[1:])
			return s, strconv.Itoa(bigBase + n) // exactly the integer that was stored
		}
		if c != "" && (c[0] == 'i' || c[0] == 'f') {
			return s, c[1:]
		}
		if op.Kind == "getintor" {
			return s, "-1"
		}
		return s, "0"
	case "getfloat":
		c := s[op.Key]
		if c == "z0" || c == "z1" {
			return s, map[string]string{"z0": "0", "z1": "-0"}[c]
		}
		if c != "" && c[0] == 'I' {
			n, _ := strconv.Atoi(c[1:])
			return s, strconv.FormatFloat(float64(bigBase+n), 'f', -1, 64) // Go's conversion of the value
		}
		if c != "" && c[0] == 'i' {
			return s, c[1:]
		}
		if c != "" && c[0] == 'f' {
			return s, c[1:] + ".5"
		}
		return s, "0"
	case "getbool":
		return s, strconv.FormatBool(s[op.Key] == "bt")
	case "getslice", "getsliceor":
		// a read: any slice value is handed out as []any, the stored value stays what it is
		c := s[op.Key]
		if c != "" && (c[0] == 'l' || c[0] == 'a') {
			return s, "[" + c[1:] + "]"
		}
		if op.Kind == "getsliceor" {
			return s, "D"
		}
		return s, "nil"
	case "getmap", "getmapor":
		c := s[op.Key]
		if c != "" && c != "nil" && c[0] == 'n' {
			return s, c
		}
		if op.Kind == "getmapor" {
			return s, "D"
		}
		return s, "nil"
	case "getfloator":
		c := s[op.Key]
		if c == "z0" || c == "z1" {
			return s, map[string]string{"z0": "0", "z1": "-0"}[c]
		}
		if c != "" && c[0] == 'I' {
			n, _ := strconv.Atoi(c[1:])
			return s, strconv.FormatFloat(float64(bigBase+n), 'f', -1, 64)
		}
		if c != "" && c[0] == 'i' {
			return s, c[1:]
		}
		if c != "" && c[0] == 'f' {
			return s, c[1:] + ".5"
		}
		return s, "-1.25"
	case "getboolor":
		c := s[op.Key]
		if c == "bt" || c == "bf" {
			return s, strconv.FormatBool(c == "bt")
		}
		return s, "true"
	case "bind":
		// Bind into an *any: the value's JSON form (a read)
		c := s[op.Key]
		switch {
		case c == "":
			return s, "E"
		case c == "nil":
			return s, "null"
		case c == "bt", c == "bf":
			return s, strconv.FormatBool(c == "bt")
		case c == "z0":
			return s, "0"
		case c == "z1":
			return s, "-0"
		case c[0] == 'I': // through JSON into an any: a float64
			n, _ := strconv.Atoi(c[1:])
			return s, strconv.FormatFloat(float64(bigBase+n), 'f', -1, 64)
		case c[0] == 'i':
			return s, c[1:]
		case c[0] == 'f':
			return s, c[1:] + ".5"
		case c[0] == 's':
			return s, strconv.Quote(c)
		case c[0] == 'l', c[0] == 'a':
			return s, "[" + c[1:] + "]"
		case c[0] == 'm':
			return s, `{"v":` + c[1:] + `}`
		case c[0] == 'n':
			n, _ := strconv.Atoi(c[1:])
			return s, `{"x` + strconv.Itoa(n%3) + `":` + c[1:] + `}`
		case c[0] == 'R', c[0] == 'E': // a struct without exported fields
			return s, "{}"
		}
		return s, "?"
	}
	panic("unknown op " + op.Kind)
}

type snapshot struct {
	isMap   bool
	m       map[string]any
	keys    []string
	origMap state    // deep copy at hand-out
	origKey []string // deep copy at hand-out
	mutated bool
	arg     bool // not handed out by the store: a map this client passed to Merge and kept
}

func keyIndex(k string) int {
	for i, n := range keyNames {
		if n == k {
			return i
		}
	}
	return -1
}

func mapToState(m map[string]any) (state, string) {
	var s state
	for k, v := range m {
		i := keyIndex(k)
		if i < 0 {
			return s, fmt.Sprintf("unknown key %q", k)
		}
		s[i] = codeOf(v)
	}
	return s, ""
}

// exec performs op on the real store and returns the observed output.
func execOp(st *flyt.SharedStore, op *Op, snaps *[]*snapshot) (out string, snapArg state) {
	k := keyNames[op.Key]
	switch op.Kind {
	case "set":
		st.Set(k, valueOf(op.Val))
	case "get":
		v, ok := st.Get(k)
		if !ok {
			return "absent", snapArg
		}
		return "v:" + codeOf(v), snapArg
	case "has":
		return strconv.FormatBool(st.Has(k)), snapArg
	case "delete":
		st.Delete(k)
	case "len":
		return strconv.Itoa(st.Len()), snapArg
	case "keys":
		ks := st.Keys()
		var idx []int
		bad := ""
		for _, kk := range ks {
			i := keyIndex(kk)
			if i < 0 {
				bad = fmt.Sprintf("!unknown key %q", kk)
			}
			idx = append(idx, i)
		}
		sort.Ints(idx)
		var parts []string
		for _, i := range idx {
			parts = append(parts, strconv.Itoa(i))
		}
		*snaps = append(*snaps, &snapshot{keys: ks, origKey: append([]string(nil), ks...)})
		return strings.Join(parts, ",") + bad, snapArg
	case "getall":
		m := st.GetAll()
		s, bad := mapToState(m)
		*snaps = append(*snaps, &snapshot{isMap: true, m: m, origMap: s})
		if bad != "" {
			return "!" + bad, snapArg
		}
		return encMap(s), snapArg
	case "merge":
		m := map[string]any{}
		for i, kk := range op.Keys {
			m[keyNames[kk]] = valueOf(op.Vals[i])
		}
		orig, _ := mapToState(m)
		st.Merge(m)
		// the caller keeps its map: the store must have copied the entries
		*snaps = append(*snaps, &snapshot{isMap: true, m: m, origMap: orig, arg: true})
	case "mergenil":
		st.Merge(nil)
	case "mergesnap":
		sn := pickSnapF(*snaps, op.Snap, true, true) // never merge a snapshot the client poisoned
		if sn == nil {
			st.Merge(nil)
			return "", snapArg
		}
		snapArg, _ = mapToState(sn.m)
		st.Merge(sn.m)
	case "clear":
		st.Clear()
	case "getstring":
		return st.GetString(k), snapArg
	case "getstringor":
		return st.GetStringOr(k, "D"), snapArg
	case "getint":
		return strconv.Itoa(st.GetInt(k)), snapArg
	case "getintor":
		return strconv.Itoa(st.GetIntOr(k, -1)), snapArg
	case "getfloat":
		return strconv.FormatFloat(st.GetFloat64(k), 'f', -1, 64), snapArg
	case "getbool":
		return strconv.FormatBool(st.GetBool(k)), snapArg
	case "getslice", "getsliceor":
		var sl []any
		if op.Kind == "getslice" {
			sl = st.GetSlice(k)
		} else {
			sl = st.GetSliceOr(k, []any{"D"})
		}
		switch {
		case sl == nil:
			return "nil", snapArg
		case len(sl) == 1 && sl[0] == "D":
			return "D", snapArg
		case len(sl) == 1:
			if n, ok := sl[0].(int); ok {
				return "[" + strconv.Itoa(n) + "]", snapArg
			}
		}
		return fmt.Sprintf("?%v", sl), snapArg
	case "getmap":
		m := st.GetMap(k)
		if m == nil {
			return "nil", snapArg
		}
		return codeOf(m), snapArg
	case "getmapor":
		m := st.GetMapOr(k, map[string]any{"D": "D"})
		if len(m) == 1 && m["D"] == "D" {
			return "D", snapArg
		}
		return codeOf(m), snapArg
	case "getfloator":
		return strconv.FormatFloat(st.GetFloat64Or(k, -1.25), 'f', -1, 64), snapArg
	case "getboolor":
		return strconv.FormatBool(st.GetBoolOr(k, true)), snapArg
	case "bind":
		var dest any
		if err := st.Bind(k, &dest); err != nil {
			if strings.Contains(err.Error(), "not found") {
				return "E", snapArg
			}
			return "!bind:" + err.Error(), snapArg
		}
		b, err := json.Marshal(dest)
		if err != nil {
			return "!marshal:" + err.Error(), snapArg
		}
		return string(b), snapArg
	default:
		panic("unknown op " + op.Kind)
	}
	return "", snapArg
}

func pickSnap(snaps []*snapshot, n int, wantMap bool) *snapshot {
	return pickSnapF(snaps, n, wantMap, false)
}

func pickSnapF(snaps []*snapshot, n int, wantMap, cleanOnly bool) *snapshot {
	var c []*snapshot
	for _, s := range snaps {
		if s.isMap == wantMap && !(cleanOnly && s.mutated) {
			c = append(c, s)
		}
	}
	if len(c) == 0 {
		return nil
	}
	return c[n%len(c)]
}

// mutate a snapshot the store handed out earlier (must not affect the store)
func mutateSnap(op *Op, snaps []*snapshot) {
	if op.Val == "keys" {
		sn := pickSnap(snaps, op.Snap, false)
		if sn == nil {
			return
		}
		sn.mutated = true
		for i := range sn.keys {
			sn.keys[i] = "POISONKEY" + strconv.Itoa(op.ID)
		}
		return
	}
	sn := pickSnap(snaps, op.Snap, true)
	if op.Kind == "mutarg" { // only maps this client handed to Merge earlier
		var args []*snapshot
		for _, x := range snaps {
			if x.arg {
				args = append(args, x)
			}
		}
		sn = nil
		if len(args) > 0 {
			sn = args[op.Snap%len(args)]
		}
	}
	if sn == nil {
		return
	}
	sn.mutated = true
	for k := range sn.m {
		if (len(k)+op.ID)%2 == 0 {
			delete(sn.m, k)
		} else {
			sn.m[k] = "POISON" + strconv.Itoa(op.ID)
		}
	}
	sn.m[keyNames[op.Key]] = "POISON" + strconv.Itoa(op.ID)
}

func pick2(r *rand.Rand, a, b string) string {
	if r.IntN(2) == 0 {
		return a
	}
	return b
}

type genState struct {
	r      *rand.Rand
	nextID int
	nkeys  int
	slices bool // this scenario is heavy on slice values and the slice getter
	nested bool // this scenario is heavy on nested-section values
}

func (g *genState) val() string {
	g.nextID++
	if g.slices && g.r.IntN(2) == 0 {
		return pick2(g.r, "l", "a") + strconv.Itoa(g.nextID)
	}
	if g.r.IntN(25) == 0 {
		return "a" + strconv.Itoa(g.nextID)
	}
	if g.r.IntN(12) == 0 {
		return "I" + strconv.Itoa(g.nextID)
	}
	if g.r.IntN(25) == 0 {
		return pick2(g.r, "R", "E") + strconv.Itoa(g.nextID)
	}
	if g.r.IntN(8) == 0 {
		return pick2(g.r, "z0", "z1")
	}
	if g.nested && g.r.IntN(2) == 0 || g.r.IntN(20) == 0 {
		return "n" + strconv.Itoa(g.nextID)
	}
	switch g.r.IntN(14) {
	case 12:
		return "l" + strconv.Itoa(g.nextID)
	case 13:
		return "m" + strconv.Itoa(g.nextID)
	case 0:
		return "nil"
	case 1:
		return "s" + strconv.Itoa(g.nextID)
	case 2:
		return "f" + strconv.Itoa(g.nextID)
	case 3:
		if g.r.IntN(2) == 0 {
			return "bt"
		}
		return "bf"
	}
	return "i" + strconv.Itoa(g.nextID)
}

func (g *genState) op(snapOps bool) Op {
	r := g.r
	key := r.IntN(g.nkeys)
	if g.slices && r.IntN(5) == 0 {
		return Op{Kind: pick2(r, "getslice", "getsliceor"), Key: key}
	}
	switch n := r.IntN(100); {
	case n < 22:
		return Op{Kind: "set", Key: key, Val: g.val()}
	case n < 36:
		return Op{Kind: "get", Key: key}
	case n < 42:
		return Op{Kind: "has", Key: key}
	case n < 50:
		return Op{Kind: "delete", Key: key}
	case n < 56:
		return Op{Kind: "len"}
	case n < 62:
		return Op{Kind: "keys"}
	case n < 72:
		return Op{Kind: "getall"}
	case n < 82:
		nk := 1 + r.IntN(3)
		op := Op{Kind: "merge"}
		perm := r.Perm(g.nkeys)
		for i := 0; i < nk && i < len(perm); i++ {
			op.Keys = append(op.Keys, perm[i])
			op.Vals = append(op.Vals, g.val())
		}
		return op
	case n < 84:
		return Op{Kind: "mergenil"}
	case n < 89:
		return Op{Kind: "clear"}
	case n < 95:
		kinds := []string{"getstring", "getstringor", "getint", "getintor", "getfloat", "getfloator", "getbool", "getboolor", "getslice", "getsliceor", "getmap", "getmapor", "bind"}
		if g.slices && r.IntN(2) == 0 {
			kinds = []string{"getslice", "getsliceor"}
		}
		return Op{Kind: kinds[r.IntN(len(kinds))], Key: key}
	default:
		g.nextID++
		if !snapOps {
			// the caller changes a map it handed to Merge earlier: none of the store's business
			return Op{Kind: "mutarg", Snap: r.IntN(4), Key: key, ID: g.nextID}
		}
		if r.IntN(3) == 0 {
			return Op{Kind: "mergesnap", Snap: r.IntN(4)}
		}
		what := ""
		if r.IntN(3) == 0 {
			what = "keys"
		}
		return Op{Kind: "mutsnap", Snap: r.IntN(4), Key: key, ID: g.nextID, Val: what}
	}
}

func gen(prop, tier string, r *rand.Rand, idx int) any {
	g := &genState{r: r, nested: r.IntN(5) == 0, slices: r.IntN(5) == 1}
	sc := &Scn{}
	if prop == "C14" && r.IntN(2) == 0 {
		// sequential refinement: one client, long history, wide key space
		g.nkeys = 2 + r.IntN(7)
		if r.IntN(8) == 0 {
			// bulk: grow the store to most of the key space, then shrink it key by
			// key, asking questions all the way (size-dependent code paths)
			g.nkeys = NK
			var ops []Op
			ask := func() {
				switch r.IntN(6) {
				case 0:
					ops = append(ops, Op{Kind: "len"})
				case 1:
					ops = append(ops, Op{Kind: "has", Key: r.IntN(NK)})
				case 2:
					ops = append(ops, Op{Kind: "get", Key: r.IntN(NK)})
				}
			}
			grow := r.Perm(NK)[:NK-r.IntN(30)]
			for _, k := range grow {
				if r.IntN(4) == 0 {
					ops = append(ops, Op{Kind: "merge", Keys: []int{k}, Vals: []string{g.val()}})
				} else {
					ops = append(ops, Op{Kind: "set", Key: k, Val: g.val()})
				}
				ask()
			}
			ops = append(ops, Op{Kind: "keys"})
			shrink := r.Perm(NK)[:NK-r.IntN(12)]
			for _, k := range shrink {
				ops = append(ops, Op{Kind: "delete", Key: k})
				if r.IntN(2) == 0 {
					ops = append(ops, Op{Kind: "has", Key: k})
				}
				ask()
			}
			ops = append(ops, Op{Kind: "len"}, Op{Kind: "keys"}, Op{Kind: "getall"})
			for i := r.IntN(20); i > 0; i-- {
				ops = append(ops, g.op(true))
			}
			sc.Clients = [][]Op{ops}
			sc.NKeys = g.nkeys
			return sc
		}
		n := []int{3, 10, 40, 200}[r.IntN(4)]
		if tier == "thorough" {
			n = []int{3, 10, 60, 200}[r.IntN(4)]
		}
		var ops []Op
		for i := 0; i < n; i++ {
			ops = append(ops, g.op(true))
		}
		sc.Clients = [][]Op{ops}
		sc.NKeys = g.nkeys
		return sc
	}
	g.nkeys = 1 + r.IntN(4)
	nc := 2 + r.IntN(3)
	maxOps := 5
	if prop == "C13" {
		nc = 2 + r.IntN(5) // 2..6
		maxOps = []int{2, 3, 4, 5}[r.IntN(4)]
		for nc*maxOps > 24 {
			maxOps--
		}
	}
	for c := 0; c < nc; c++ {
		n := 1 + r.IntN(maxOps)
		var ops []Op
		for i := 0; i < n; i++ {
			ops = append(ops, g.op(prop == "C14"))
		}
		sc.Clients = append(sc.Clients, ops)
	}
	sc.NKeys = g.nkeys
	return sc
}

func decode(b []byte) (any, error) {
	var sc Scn
	err := json.Unmarshal(b, &sc)
	return &sc, err
}

func clone(sc *Scn) *Scn {
	b, _ := json.Marshal(sc)
	var c Scn
	json.Unmarshal(b, &c)
	return &c
}

func shrinkCands(x any) []any {
	sc := x.(*Scn)
	var out []any
	for i := range sc.Clients {
		if len(sc.Clients) > 1 {
			c := clone(sc)
			c.Clients = append(c.Clients[:i], c.Clients[i+1:]...)
			out = append(out, c)
		}
		n := len(sc.Clients[i])
		if n > 4 {
			c := clone(sc)
			c.Clients[i] = c.Clients[i][:n/2]
			out = append(out, c)
			c = clone(sc)
			c.Clients[i] = c.Clients[i][n/2:]
			out = append(out, c)
		}
		if n <= 40 {
			for j := range sc.Clients[i] {
				c := clone(sc)
				c.Clients[i] = append(c.Clients[i][:j], c.Clients[i][j+1:]...)
				out = append(out, c)
			}
		}
	}
	return out
}

type hop struct {
	client  int
	op      *Op
	out     string
	call    int
	ret     int
	snapArg state
}

type pin struct {
	op      *Op
	snapArg state
}

var model = porcupine.Model{
	Init: func() interface{} { return state{} },
	Step: func(st, in, out interface{}) (bool, interface{}) {
		p := in.(pin)
		ns, want := apply(st.(state), p.op, p.snapArg)
		return want == out.(string), ns
	},
	DescribeOperation: func(in, out interface{}) string {
		p := in.(pin)
		b, _ := json.Marshal(p.op)
		return string(b) + " -> " + out.(string)
	},
}

type summary struct {
	Ops       int    `json:"ops"`
	Overlaps  int    `json:"overlapping_pairs"`
	Porcupine string `json:"porcupine,omitempty"`
}

func run(t *testing.T, prop string, x any, cfg simrt.Config) *eng.Outcome {
	sc := x.(*Scn)
	nc := len(sc.Clients)
	hist := make([][]hop, nc)
	snaps := make([][]*snapshot, nc)
	var store *flyt.SharedStore
	client := func(c int) {
		for i := range sc.Clients[c] {
			op := &sc.Clients[c][i]
			if op.Kind == "mutsnap" || op.Kind == "mutarg" {
				simrt.Emit(simrt.Event{Kind: op.Kind, N: c, V: i})
				mutateSnap(op, snaps[c])
				continue
			}
			h := hop{client: c, op: op}
			simrt.EmitThen(simrt.Event{Kind: "invoke", N: c, V: i, S1: op.Kind}, nil)
			h.out, h.snapArg = execOp(store, op, &snaps[c])
			simrt.EmitThen(simrt.Event{Kind: "return", N: c, V: i, S1: op.Kind, S2: h.out}, nil)
			hist[c] = append(hist[c], h)
		}
	}
	cfg.Lockset = true // every access to the store's map is checked against the locks the client holds
	res := simrt.Run(t, cfg, func() {
		store = flyt.NewSharedStore()
		if nc == 1 {
			client(0)
			return
		}
		var join simsync.WaitGroup
		for c := 0; c < nc; c++ {
			join.Add(1)
			simrt.Go("client", func() {
				defer join.Done()
				client(c)
			})
		}
		join.Wait()
	})
	o := &eng.Outcome{Res: res, Faults: map[string]int{}, Probes: map[string]int{}}
	viol := func(clause, format string, a ...any) *eng.Violation {
		return &eng.Violation{Prop: prop, Class: prop + "." + clause, Msg: fmt.Sprintf(format, a...)}
	}
	// invoke/return stamps from the event log
	type key struct{ c, i int }
	calls, rets := map[key]int{}, map[key]int{}
	for _, e := range res.Events {
		switch e.Kind {
		case "invoke":
			calls[key{e.N, e.V}] = e.Seq
		case "return":
			rets[key{e.N, e.V}] = e.Seq
		}
	}
	var ops []porcupine.Operation
	total := 0
	for c := range hist {
		oi := 0
		for i := range sc.Clients[c] {
			if k := sc.Clients[c][i].Kind; k == "mutsnap" || k == "mutarg" {
				continue
			}
			if oi >= len(hist[c]) {
				break
			}
			h := &hist[c][oi]
			oi++
			h.call, h.ret = calls[key{c, i}], rets[key{c, i}]
			ops = append(ops, porcupine.Operation{ClientId: c, Input: pin{h.op, h.snapArg}, Call: int64(h.call), Output: h.out, Return: int64(h.ret)})
			total++
		}
	}
	overlaps := 0
	for i := range ops {
		for j := i + 1; j < len(ops); j++ {
			if ops[i].ClientId != ops[j].ClientId && ops[i].Call < ops[j].Return && ops[j].Call < ops[i].Return {
				overlaps++
				ki, kj := ops[i].Input.(pin).op.Kind, ops[j].Input.(pin).op.Kind
				for _, kk := range []string{ki, kj} {
					if kk == "merge" || kk == "mergesnap" {
						o.Probes["merge_overlapped"]++
					}
					if kk == "clear" {
						o.Probes["clear_overlapped"]++
					}
				}
			}
		}
	}
	for c := range sc.Clients {
		for _, op := range sc.Clients[c] {
			switch {
			case op.Kind == "mutarg", op.Kind == "mutsnap":
				o.Faults["caller_mutates_"+map[string]string{"mutarg": "merge_argument", "mutsnap": "snapshot_or_argument"}[op.Kind]]++
			case op.Kind == "set" && strings.HasPrefix(op.Val, "n"):
				o.Probes["nested_section_value"]++
			}
		}
	}
	o.Nontrivial = overlaps > 0 || (nc == 1 && total >= 3)
	o.Shape = uint64(nc)*7919 + uint64(total)*104729 + uint64(sc.NKeys)
	sum := summary{Ops: total, Overlaps: overlaps}
	o.Summary = &sum
	if len(res.Panics) > 0 {
		o.V = viol("panic", "%v", res.Panics)
		return o
	}
	if res.Deadlock || res.StepLimit {
		o.V = viol("hang", "store clients made no progress: %v", res.Blocked)
		return o
	}
	if prop == "C13" && len(res.Races) > 0 {
		// "the operations never race with each other", decided inside the simulation
		o.V = viol("unsynchronised-access", "%s", res.Races[0])
		return o
	}
	switch prop {
	case "C13":
		r := porcupine.CheckOperationsTimeout(model, ops, 30*time.Second)
		sum.Porcupine = string(r)
		switch r {
		case porcupine.Illegal:
			o.Probes["porcupine_illegal"]++
			o.V = viol("not-linearizable", "history of %d operations by %d clients is not linearizable against a sequential map: %s", total, nc, describe(ops))
		case porcupine.Unknown:
			o.Probes["porcupine_unknown"]++
		default:
			o.Probes["porcupine_ok"]++
		}
		// the store's state is its own: a map a client handed to Merge and did not
		// touch afterwards must not have been written by later store operations
		for c := range snaps {
			for _, sn := range snaps[c] {
				if now, bad := mapToState(sn.m); o.V == nil && sn.arg && !sn.mutated && (bad != "" || now != sn.origMap) {
					o.V = viol("merge-argument-written-by-store", "a map client %d passed to Merge was changed by later store operations: was {%s}, now {%s} %s (the store shares state with its caller outside its lock)", c, encMap(sn.origMap), encMap(now), bad)
				}
			}
		}
	case "C14":
		if nc == 1 {
			var s state
			for i := range hist[0] {
				h := &hist[0][i]
				ns, want := apply(s, h.op, h.snapArg)
				if want != h.out {
					b, _ := json.Marshal(h.op)
					o.V = viol("not-a-map", "operation %d %s answered %q, a plain map answers %q (reference state before: {%s})", i, b, h.out, want, encMap(s))
					return o
				}
				s = ns
			}
		} else {
			for _, op := range ops {
				if poisoned(op.Output.(string)) {
					o.V = viol("snapshot-aliases-store", "a store operation observed a value that was only ever written into a snapshot: %s -> %s", model.DescribeOperation(op.Input, op.Output), op.Output)
					return o
				}
			}
		}
		// snapshots the holder did not touch must still be what they were
		for c := range snaps {
			for si, sn := range snaps[c] {
				if sn.mutated {
					continue
				}
				if sn.isMap {
					now, bad := mapToState(sn.m)
					if bad != "" || now != sn.origMap {
						what := "GetAll snapshot"
						if sn.arg {
							what = "map passed to Merge, entry"
						}
						o.V = viol("snapshot-changed", "%s %d of client %d changed after it was handed out: was {%s}, now {%s} %s", what, si, c, encMap(sn.origMap), encMap(now), bad)
						return o
					}
				} else if strings.Join(sn.keys, "\x01") != strings.Join(sn.origKey, "\x01") {
					o.V = viol("snapshot-changed", "Keys snapshot %d of client %d changed after it was handed out: was %q, now %q", si, c, sn.origKey, sn.keys)
					return o
				}
			}
		}
	}
	return o
}

func poisoned(out string) bool {
	return strings.Contains(out, "POISON") || strings.Contains(out, "!") || strings.HasPrefix(out, "v:p") || strings.Contains(out, "=p")
}

func describe(ops []porcupine.Operation) string {
	var parts []string
	for _, op := range ops {
		parts = append(parts, fmt.Sprintf("c%d[%d,%d] %s", op.ClientId, op.Call, op.Return, model.DescribeOperation(op.Input, op.Output)))
	}
	return strings.Join(parts, "; ")
}

func TestSim(t *testing.T) {
	eng.Main(t, &eng.Spec{Name: "storesim", Gen: gen, Run: run, Decode: decode, Shrink: shrinkCands})
}
