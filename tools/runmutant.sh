#!/bin/bash
# runmutant.sh <patch> [tier] : apply a mutant to a scratch copy of /repo, confirm the
# pinned suite still passes on it, run the annotated property's check against it.
set -u
patch=$(readlink -f "$1"); tier=${2:-quick}
prop=$(sed -n 's/^# property: //p' "$patch" | head -1)
d=$(mktemp -d /tmp/mut.XXXXXX)
trap 'rm -rf "$d"' EXIT
cp /repo/*.go /repo/go.mod "$d"/
( cd "$d" && patch -p1 -s < "$patch" ) || { echo "MUTANT $patch: patch does not apply"; exit 2; }
if ! ( cd "$d" && go build ./... && go test -count=1 ./... >/dev/null 2>&1 ); then
  echo "MUTANT $(basename $patch): does not compile or fails the pinned suite (not a valid mutant)"; exit 3
fi
status=0
for p in $prop; do
  out=$(VERIF_REPO="$d" VERIF_REPLAY_DIR="$d/replays" VERIF_EVIDENCE_DIR="$d/evidence" /verif/check $p $tier 2>&1); code=$?
  line=$(echo "$out" | grep -E "^violation class" | head -1)
  if [ $code -eq 1 ]; then echo "MUTANT $(basename $patch) [$p]: CAUGHT  $line"; 
  elif [ $code -eq 0 ]; then echo "MUTANT $(basename $patch) [$p]: MISSED"; status=1
  else echo "MUTANT $(basename $patch) [$p]: INFRA exit=$code"; echo "$out" | tail -5; status=2; fi
done
exit $status
