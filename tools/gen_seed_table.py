#!/usr/bin/env python3
"""Regenerates the seeded-changes table of DESIGN.md (between the markers) from /verif/seeded/*/meta.json."""
import json, glob, os, re
rows = []
missed = 0
for d in sorted(glob.glob('/verif/seeded/[A-Z]*/')):
    m = json.load(open(d + 'meta.json'))
    if m['history'].startswith('missed'):
        missed += 1
    rows.append((os.path.basename(d.rstrip('/')), m['property'], m['needs_to_manifest'], m['caught_by'], m['history']))
out = ["<!-- SEED-TABLE-BEGIN -->",
       "%d changes written by independent sub-agents (each given only one property's text and its own scratch worktree; later waves were also told which ideas earlier reviewers had already used, so as to get different ones). Each was confirmed in scratch copies by `tools/seedcheck.sh` (pinned suite passes with the change; the demonstration fails with it and passes without it) before being kept under `/verif/seeded/<name>/` (patch.diff, demo_test.go, the author's notes.md, meta.json). `tools/allmutants.sh` re-runs all of them. %d were caught by the owning property's quick check as it stood when the change arrived; %d were missed at first and led to the strengthenings named in the last column (all %d are caught now).\n" % (len(rows), len(rows) - missed, missed, len(rows)),
       "| seeded change | property | needs, in order to manifest | caught by | history |", "|---|---|---|---|---|"]
for r in rows:
    out.append("| %s | %s | %s | %s | %s |" % tuple(x.replace('|', '/') for x in r))
out.append("<!-- SEED-TABLE-END -->")
s = open('/verif/DESIGN.md').read()
if '<!-- SEED-TABLE-BEGIN -->' in s:
    s = re.sub(r'<!-- SEED-TABLE-BEGIN -->.*<!-- SEED-TABLE-END -->', lambda _: "\n".join(out), s, flags=re.S)
else:
    # first time: replace the old static section body
    a = s.index('### 11.7 Independently seeded changes')
    b = s.index('### 11.8 Hand-written mutants')
    s = s[:a] + "### 11.7 Independently seeded changes\n\n" + "\n".join(out) + "\n\n" + s[b:]
open('/verif/DESIGN.md', 'w').write(s)
print(len(rows), 'seeds,', missed, 'missed at first')
