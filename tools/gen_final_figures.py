#!/usr/bin/env python3
# Regenerates DESIGN.md section 11.10 (between the FINAL-FIGURES markers) from evidence/*.json.
import json,glob,re
rows=[]
tot_runs=tot_sim=0
faults={}
for f in sorted(glob.glob('/verif/evidence/C*.json')):
    d=json.load(open(f)); c=d['coverage']
    runs=c.get('evaluations',0); tot_runs+=runs; tot_sim+=c.get('simulated_time_s',0)
    for k,v in c.get('fault_fired',{}).items(): faults[k]=faults.get(k,0)+v
    dr=c.get('determinism_recheck',{})
    rows.append("| %s | %s | %d | %d | %d | %.0f | %d | %s | %d/%d | %d |" % (d['property_id'], d['tier'], d.get('seed',0), runs, c.get('distinct_nontrivial',0), c.get('simulated_time_s',0), c.get('runs_per_hour',0), "yes" if c.get('budget_cut_short') else "no", dr.get('mismatches',0), dr.get('reruns',0), len(d.get('violations',[])) if isinstance(d.get('violations'),list) else d.get('violations',0)))
top=sorted(faults.items(), key=lambda kv:-kv[1])[:25]
out=["| property | tier | seed | runs | distinct non-trivial | simulated s | runs/hour | wall budget reached | determinism mismatches/re-executions | violations |","|---|---|---|---|---|---|---|---|---|---|"]+rows
out.append("")
out.append("Total: %d simulated runs, %.1f simulated hours. Fault kinds that actually fired, summed over the 18 evidence files (top 25 of %d): %s." % (tot_runs, tot_sim/3600, len(faults), ", ".join("%s %d"%kv for kv in top)))
s=open('/verif/DESIGN.md').read()
a="<!-- FINAL-FIGURES:BEGIN -->"; b="<!-- FINAL-FIGURES:END -->"
i=s.index(a)+len(a); j=s.index(b)
open('/verif/DESIGN.md','w').write(s[:i]+"\n"+"\n".join(out)+"\n"+s[j:])
print("\n".join(out[-3:]))
