#!/bin/bash
# seedstore.sh <src-dir> <name> <property> "<needs>" "<caught-by>" "<history>" [check-to-run: property id(s), or none]
set -eu
src=$1; name=$2; prop=$3; needs=$4; caught=$5; hist=$6; chk=${7:-}
dst=/verif/seeded/$name; mkdir -p "$dst"
cp "$src/patch.diff" "$src/demo_test.go" "$dst/"; [ -f "$src/notes.md" ] && cp "$src/notes.md" "$dst/notes.md"
python3 - "$dst" "$prop" "$needs" "$caught" "$hist" "$chk" <<'PY'
import json,sys
dst,prop,needs,caught,hist,chk=sys.argv[1:7]
d={"property":prop,"author":"independent sub-agent given only the property text and a scratch worktree",
 "needs_to_manifest":needs,
 "confirmed":"tools/seedcheck.sh: pinned suite passes with the change; demo_test.go fails with the change and passes without it (scratch copies under /tmp, removed afterwards)",
 "caught_by":caught,"history":hist,
 "how_to_rerun":"tools/seedcheck.sh /verif/seeded/%s %s" % (dst.split('/')[-1], chk if chk and chk!="none" else prop)}
if chk: d["check"]=chk
json.dump(d, open(dst+"/meta.json","w"), indent=1)
PY
echo stored $dst
