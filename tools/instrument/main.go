// instrument copies the root package of a Go module into a scratch directory
// and rewrites it so that every scheduling-relevant operation goes through the
// simulator (rules R1-R5 of /verif/DESIGN.md section 2.1). Exit status 2 means
// "cannot instrument" (build trouble), never a verdict about a property.
package main

import (
	"bytes"
	"crypto/sha256"
	"encoding/json"
	"flag"
	"fmt"
	"go/ast"
	"go/build"
	"go/format"
	"go/importer"
	"go/parser"
	"go/token"
	"go/types"
	"os"
	"path/filepath"
	"sort"
	"strconv"
	"strings"
)

const simAlias = "_vsim"
const simPath = "verif.local/simrt"
const syncPath = "verif.local/simrt/simsync"

type stats struct {
	Files        int            `json:"files"`
	Sites        map[string]int `json:"sites"`
	Uninstr      []string       `json:"uninstrumented_sites"`
	SourceSHA    string         `json:"source_sha"`
	SyncImports  int            `json:"sync_imports_rewritten"`
	DeferDynamic int            `json:"deferred_scheduling_points"`
}

type rewriter struct {
	fset  *token.FileSet
	info  *types.Info
	pkg   *types.Package
	fname string
	used  bool
	st    *stats
	tmpN  int

	keepSelect bool
}

func fail(format string, a ...any) {
	fmt.Fprintf(os.Stderr, "instrument: "+format+"\n", a...)
	os.Exit(2)
}

func main() {
	src := flag.String("src", "/repo", "module root to instrument")
	dst := flag.String("dst", "", "output directory")
	statsOut := flag.String("stats", "", "write instrumentation statistics (JSON) here")
	flag.BoolVar(&noAccess, "noaccess", false, "leave rule R9 (map-field access notes for the lockset checker) out")
	flag.Parse()
	if *dst == "" {
		fail("-dst required")
	}
	bp, err := build.ImportDir(*src, 0)
	if err != nil {
		fail("cannot list package in %s: %v", *src, err)
	}
	if len(bp.CgoFiles) > 0 {
		fail("cgo files are not supported")
	}
	fset := token.NewFileSet()
	var files []*ast.File
	var names []string
	hsum := sha256.New()
	for _, n := range bp.GoFiles {
		raw, _ := os.ReadFile(filepath.Join(*src, n))
		hsum.Write([]byte(n))
		hsum.Write(raw)
		f, err := parser.ParseFile(fset, filepath.Join(*src, n), nil, parser.SkipObjectResolution)
		if err != nil {
			fail("parse %s: %v", n, err)
		}
		files = append(files, f)
		names = append(names, n)
	}
	info := &types.Info{
		Types:      map[ast.Expr]types.TypeAndValue{},
		Uses:       map[*ast.Ident]types.Object{},
		Defs:       map[*ast.Ident]types.Object{},
		Selections: map[*ast.SelectorExpr]*types.Selection{},
	}
	conf := types.Config{Importer: importer.ForCompiler(fset, "source", nil)}
	pkg, err := conf.Check(bp.ImportPath, fset, files, info)
	if err != nil {
		fail("type check: %v", err)
	}
	st := &stats{Sites: map[string]int{}, SourceSHA: fmt.Sprintf("%x", hsum.Sum(nil))[:16]}
	if err := os.MkdirAll(*dst, 0o755); err != nil {
		fail("%v", err)
	}
	for i, f := range files {
		rw := &rewriter{fset: fset, info: info, pkg: pkg, fname: names[i], st: st}
		rw.file(f)
		var buf bytes.Buffer
		if err := format.Node(&buf, fset, f); err != nil {
			fail("print %s: %v", names[i], err)
		}
		if err := os.WriteFile(filepath.Join(*dst, names[i]), buf.Bytes(), 0o644); err != nil {
			fail("%v", err)
		}
		st.Files++
	}
	gomod, err := os.ReadFile(filepath.Join(*src, "go.mod"))
	if err != nil {
		fail("read go.mod: %v", err)
	}
	gomod = append(gomod, []byte("\nrequire "+simPath+" v0.0.0\n")...)
	if err := os.WriteFile(filepath.Join(*dst, "go.mod"), gomod, 0o644); err != nil {
		fail("%v", err)
	}
	sort.Strings(st.Uninstr)
	if *statsOut != "" {
		b, _ := json.MarshalIndent(st, "", " ")
		os.WriteFile(*statsOut, b, 0o644)
	}
}

func (rw *rewriter) site(pos token.Pos, kind string) string {
	p := rw.fset.Position(pos)
	rw.st.Sites[kind]++
	return fmt.Sprintf("%s:%d:%s", rw.fname, p.Line, kind)
}

func (rw *rewriter) tmp(prefix string) *ast.Ident {
	rw.tmpN++
	return ast.NewIdent(fmt.Sprintf("_v%s%d", prefix, rw.tmpN))
}

func (rw *rewriter) yieldStmt(pos token.Pos, kind string) ast.Stmt {
	rw.used = true
	return &ast.ExprStmt{X: &ast.CallExpr{
		Fun:  &ast.SelectorExpr{X: ast.NewIdent(simAlias), Sel: ast.NewIdent("Yield")},
		Args: []ast.Expr{&ast.BasicLit{Kind: token.STRING, Value: strconv.Quote(rw.site(pos, kind))}},
	}}
}

func (rw *rewriter) file(f *ast.File) {
	// R1: sync -> simsync
	for _, imp := range f.Imports {
		p, _ := strconv.Unquote(imp.Path.Value)
		if p == "sync" {
			imp.Path.Value = strconv.Quote(syncPath)
			if imp.Name == nil {
				imp.Name = ast.NewIdent("sync")
			}
			rw.st.SyncImports++
		}
		if p == simPath || p == syncPath {
			fail("%s already imports the simulator", rw.fname)
		}
	}
	// R7: functions handed to context.AfterFunc / time.AfterFunc run in a
	// goroutine the runtime starts: adopt it as a simulated task.
	ast.Inspect(f, func(n ast.Node) bool {
		call, ok := n.(*ast.CallExpr)
		if !ok || len(call.Args) != 2 {
			return true
		}
		sel, ok := ast.Unparen(call.Fun).(*ast.SelectorExpr)
		if !ok {
			return true
		}
		fn, ok := rw.info.Uses[sel.Sel].(*types.Func)
		if !ok || fn.Pkg() == nil || fn.Name() != "AfterFunc" || (fn.Pkg().Path() != "context" && fn.Pkg().Path() != "time") {
			return true
		}
		rw.used = true
		call.Args[1] = &ast.CallExpr{
			Fun:  &ast.SelectorExpr{X: ast.NewIdent(simAlias), Sel: ast.NewIdent("Adopted")},
			Args: []ast.Expr{&ast.BasicLit{Kind: token.STRING, Value: strconv.Quote(rw.site(call.Pos(), "afterfunc"))}, call.Args[1]},
		}
		return true
	})
	for _, d := range f.Decls {
		switch d := d.(type) {
		case *ast.FuncDecl:
			if d.Body != nil {
				rw.block(d.Body)
			}
		case *ast.GenDecl:
			// package-level var initialisers may contain function literals
			for _, sp := range d.Specs {
				if vs, ok := sp.(*ast.ValueSpec); ok {
					for _, v := range vs.Values {
						rw.funcLits(v)
					}
				}
			}
		}
	}
	if rw.used {
		spec := &ast.ImportSpec{Name: ast.NewIdent(simAlias), Path: &ast.BasicLit{Kind: token.STRING, Value: strconv.Quote(simPath)}}
		gd := &ast.GenDecl{Tok: token.IMPORT, Specs: []ast.Spec{spec}}
		// imports must precede other declarations
		f.Decls = append([]ast.Decl{gd}, f.Decls...)
		f.Imports = append(f.Imports, spec)
	}
}

func (rw *rewriter) block(b *ast.BlockStmt) {
	if b == nil {
		return
	}
	b.List = rw.stmtList(b.List)
}

func (rw *rewriter) stmtList(list []ast.Stmt) []ast.Stmt {
	var out []ast.Stmt
	for _, s := range list {
		acc := rw.accesses(s) // R9, computed on the statement as written
		pre, repl := rw.stmt(s)
		out = append(out, acc...)
		out = append(out, pre...)
		out = append(out, repl)
	}
	return out
}

// mapField: e is a struct field (originally: map-typed fields only; now every
// field that is not itself a synchronisation object) reached through
// variables, field selections and pointer indirections only (so that &e can be
// taken, once).
func (rw *rewriter) mapField(e ast.Expr) *ast.SelectorExpr {
	sel, ok := ast.Unparen(e).(*ast.SelectorExpr)
	if !ok {
		return nil
	}
	sl, ok := rw.info.Selections[sel]
	if !ok || sl.Kind() != types.FieldVal {
		return nil
	}
	// every field is tracked except synchronisation objects themselves
	// (anything from package sync or sync/atomic, directly or as element type)
	ft := sl.Type()
	for {
		if p, ok := ft.(*types.Pointer); ok {
			ft = p.Elem()
			continue
		}
		break
	}
	if nt, ok := ft.(*types.Named); ok && nt.Obj().Pkg() != nil {
		if pp := nt.Obj().Pkg().Path(); pp == "sync" || pp == "sync/atomic" {
			return nil
		}
	}
	var plain func(x ast.Expr) bool
	plain = func(x ast.Expr) bool {
		switch v := ast.Unparen(x).(type) {
		case *ast.Ident:
			_, isVar := rw.info.Uses[v].(*types.Var)
			return isVar
		case *ast.SelectorExpr:
			if s2, ok := rw.info.Selections[v]; ok && s2.Kind() == types.FieldVal {
				return plain(v.X)
			}
		case *ast.StarExpr:
			return plain(v.X)
		}
		return false
	}
	if !plain(sel.X) {
		return nil
	}
	return sel
}

// accesses: R9. For every map-typed struct field the statement's own
// expressions read or write (nested blocks and function literals are handled
// where they are instrumented), a call `simrt.Access(&x.f, site, write)` to put
// in front of the statement. Not a scheduling point: it feeds the lockset
// checker (simrt.Config.Lockset).
var noAccess bool

func (rw *rewriter) accesses(s ast.Stmt) []ast.Stmt {
	if noAccess {
		return nil
	}
	var nodes []ast.Node
	switch x := s.(type) {
	case *ast.ExprStmt, *ast.SendStmt, *ast.IncDecStmt, *ast.AssignStmt, *ast.DeclStmt, *ast.ReturnStmt:
		nodes = append(nodes, x)
	case *ast.DeferStmt:
		nodes = append(nodes, argsNodes(x.Call)...)
	case *ast.GoStmt:
		nodes = append(nodes, argsNodes(x.Call)...)
	case *ast.IfStmt:
		for cur := x; cur != nil; {
			nodes = append(nodes, cur.Init, cur.Cond)
			next, _ := cur.Else.(*ast.IfStmt)
			cur = next
		}
	case *ast.ForStmt:
		nodes = append(nodes, x.Init, x.Cond, x.Post)
	case *ast.RangeStmt:
		nodes = append(nodes, x.X)
	case *ast.SwitchStmt:
		nodes = append(nodes, x.Init, x.Tag)
	case *ast.TypeSwitchStmt:
		nodes = append(nodes, x.Init, x.Assign)
	case *ast.LabeledStmt:
		return rw.accesses(x.Stmt)
	default:
		return nil
	}
	// variables the statement's own init clause declares are not in scope in
	// front of the statement: accesses through them are not hoisted
	local := map[types.Object]bool{}
	noteDefs := func(init ast.Stmt) {
		if init == nil {
			return
		}
		ast.Inspect(init, func(n ast.Node) bool {
			if id, ok := n.(*ast.Ident); ok {
				if obj := rw.info.Defs[id]; obj != nil {
					local[obj] = true
				}
			}
			return true
		})
	}
	switch x := s.(type) {
	case *ast.IfStmt:
		for cur := x; cur != nil; {
			noteDefs(cur.Init)
			next, _ := cur.Else.(*ast.IfStmt)
			cur = next
		}
	case *ast.ForStmt:
		noteDefs(x.Init)
	case *ast.SwitchStmt:
		noteDefs(x.Init)
	case *ast.TypeSwitchStmt:
		noteDefs(x.Init)
		noteDefs(x.Assign)
	}
	usesLocal := func(f *ast.SelectorExpr) bool {
		if os.Getenv("INSTRUMENT_R9_NO_SCOPE_CHECK") != "" {
			return false // (self-test of the driver's fallback only: provokes a copy that does not compile)
		}
		found := false
		ast.Inspect(f, func(n ast.Node) bool {
			if id, ok := n.(*ast.Ident); ok && local[rw.info.Uses[id]] {
				found = true
			}
			return true
		})
		return found
	}
	writes := map[*ast.SelectorExpr]bool{}
	markLHS := func(e ast.Expr) {
		if ix, ok := ast.Unparen(e).(*ast.IndexExpr); ok {
			// m[k] = v changes the map the field holds; s[i] = v changes an element
			// and only reads the field (the slice header) - elements are not tracked
			if f := rw.mapField(ix.X); f != nil && isMap(rw.info.TypeOf(ix.X)) {
				writes[f] = true
			}
		}
		if f := rw.mapField(e); f != nil {
			writes[f] = true
		}
	}
	type acc struct {
		f     *ast.SelectorExpr
		write bool
	}
	var found []acc
	seen := map[string]bool{}
	for _, n := range nodes {
		if n == nil || isNilNode(n) {
			continue
		}
		ast.Inspect(n, func(n ast.Node) bool {
			switch v := n.(type) {
			case *ast.FuncLit:
				return false
			case *ast.AssignStmt:
				for _, l := range v.Lhs {
					markLHS(l)
				}
			case *ast.IncDecStmt:
				markLHS(v.X)
			case *ast.CallExpr:
				if id, ok := ast.Unparen(v.Fun).(*ast.Ident); ok && len(v.Args) > 0 {
					if b, isB := rw.info.Uses[id].(*types.Builtin); isB && (b.Name() == "delete" || b.Name() == "clear") {
						if f := rw.mapField(v.Args[0]); f != nil && isMap(rw.info.TypeOf(v.Args[0])) {
							writes[f] = true
						}
					}
				}
			}
			return true
		})
		ast.Inspect(n, func(n ast.Node) bool {
			if _, isLit := n.(*ast.FuncLit); isLit {
				return false
			}
			if e, ok := n.(ast.Expr); ok {
				if f := rw.mapField(e); f != nil && ast.Unparen(e) == ast.Expr(f) {
					if usesLocal(f) {
						return false
					}
					key := fmt.Sprintf("%s/%v", types.ExprString(f), writes[f])
					if !seen[key] {
						seen[key] = true
						found = append(found, acc{f, writes[f]})
					}
					return false
				}
			}
			return true
		})
	}
	var out []ast.Stmt
	for _, a := range found {
		rw.used = true
		w := "false"
		if a.write {
			w = "true"
		}
		out = append(out, &ast.ExprStmt{X: &ast.CallExpr{
			Fun: &ast.SelectorExpr{X: ast.NewIdent(simAlias), Sel: ast.NewIdent("Access")},
			Args: []ast.Expr{
				&ast.UnaryExpr{Op: token.AND, X: a.f},
				&ast.BasicLit{Kind: token.STRING, Value: strconv.Quote(rw.site(a.f.Pos(), "access"))},
				ast.NewIdent(w),
			},
		}})
	}
	return out
}

// funcLits instruments the bodies of all function literals inside e.
func isMap(t types.Type) bool {
	if t == nil {
		return true // unknown: keep the stricter reading
	}
	_, ok := t.Underlying().(*types.Map)
	return ok
}

func (rw *rewriter) funcLits(e ast.Node) {
	if e == nil {
		return
	}
	ast.Inspect(e, func(n ast.Node) bool {
		if fl, ok := n.(*ast.FuncLit); ok {
			rw.block(fl.Body)
			return false
		}
		return true
	})
}

// triggers returns the kinds of scheduling-relevant operations evaluated
// directly by the expressions in nodes (function literal bodies excluded).
func (rw *rewriter) triggers(nodes ...ast.Node) []string {
	seen := map[string]bool{}
	var kinds []string
	add := func(k string) {
		if !seen[k] {
			seen[k] = true
			kinds = append(kinds, k)
		}
	}
	for _, n := range nodes {
		if n == nil || isNilNode(n) {
			continue
		}
		ast.Inspect(n, func(n ast.Node) bool {
			switch x := n.(type) {
			case *ast.FuncLit:
				return false
			case *ast.UnaryExpr:
				if x.Op == token.ARROW {
					add("recv")
				}
			case *ast.SendStmt:
				add("send")
			case *ast.CallExpr:
				if k := rw.callKind(x); k != "" {
					add(k)
				}
			}
			return true
		})
	}
	return kinds
}

func isNilNode(n ast.Node) bool {
	switch v := n.(type) {
	case ast.Expr:
		return v == nil
	case ast.Stmt:
		return v == nil
	}
	return false
}

func (rw *rewriter) callKind(c *ast.CallExpr) string {
	fun := ast.Unparen(c.Fun)
	// conversions
	if tv, ok := rw.info.Types[fun]; ok && tv.IsType() {
		return ""
	}
	switch f := fun.(type) {
	case *ast.FuncLit:
		return ""
	case *ast.Ident:
		obj := rw.info.Uses[f]
		switch o := obj.(type) {
		case *types.Builtin:
			if o.Name() == "close" {
				return "close"
			}
			return ""
		case *types.Func:
			return ""
		case *types.Var:
			return "dyn"
		}
		return ""
	case *ast.SelectorExpr:
		if sel, ok := rw.info.Selections[f]; ok {
			switch sel.Kind() {
			case types.FieldVal:
				return "dyn" // call of a func-typed field
			case types.MethodVal:
				recv := sel.Recv()
				fn, _ := sel.Obj().(*types.Func)
				if isContext(recv) && fn != nil && (fn.Name() == "Err" || fn.Name() == "Done") {
					return "ctx"
				}
				if fn != nil && fn.Pkg() != nil && fn.Pkg().Path() == "sync/atomic" {
					return "atomic"
				}
				if types.IsInterface(recv) {
					if nt := namedOf(recv); nt != nil && nt.Obj().Pkg() == rw.pkg {
						return "iface"
					}
					if namedOf(recv) == nil { // anonymous interface
						return "iface"
					}
				}
				return ""
			}
			return ""
		}
		// qualified identifier pkg.Func
		if obj, ok := rw.info.Uses[f.Sel]; ok {
			switch o := obj.(type) {
			case *types.Func:
				if o.Pkg() != nil {
					switch o.Pkg().Path() {
					case "time":
						switch o.Name() {
						case "Sleep", "After", "NewTimer", "AfterFunc", "Tick", "NewTicker":
							return "time"
						}
					case "sync/atomic":
						return "atomic"
					}
				}
				return ""
			case *types.Var:
				return "dyn" // package-level func variable of another package
			}
		}
		return ""
	default:
		// call of the result of another expression: f()(), arr[i](), ...
		if tv, ok := rw.info.Types[fun]; ok {
			if _, ok := tv.Type.Underlying().(*types.Signature); ok {
				return "dyn"
			}
		}
	}
	return ""
}

func namedOf(t types.Type) *types.Named {
	t = types.Unalias(t)
	if p, ok := t.(*types.Pointer); ok {
		t = types.Unalias(p.Elem())
	}
	n, _ := t.(*types.Named)
	return n
}

func isContext(t types.Type) bool {
	n := namedOf(t)
	return n != nil && n.Obj().Pkg() != nil && n.Obj().Pkg().Path() == "context" && n.Obj().Name() == "Context"
}

func (rw *rewriter) yields(pos token.Pos, kinds []string) []ast.Stmt {
	if len(kinds) == 0 {
		return nil
	}
	return []ast.Stmt{rw.yieldStmt(pos, strings.Join(kinds, "+"))}
}

// stmt instruments s (recursively) and returns the statements to put in front
// of it and the (possibly replaced) statement itself.
func (rw *rewriter) stmt(s ast.Stmt) (pre []ast.Stmt, repl ast.Stmt) {
	repl = s
	switch x := s.(type) {
	case *ast.BlockStmt:
		rw.block(x)
	case *ast.LabeledStmt:
		if _, isSel := x.Stmt.(*ast.SelectStmt); isSel {
			rw.keepSelect = true // `break L` must keep referring to the select
			rw.st.Uninstr = append(rw.st.Uninstr, fmt.Sprintf("%s:%d:labeled select (choice among ready cases left to the runtime)", rw.fname, rw.fset.Position(x.Pos()).Line))
		}
		p, r := rw.stmt(x.Stmt)
		rw.keepSelect = false
		if blk, ok := r.(*ast.BlockStmt); ok && r != x.Stmt {
			// a replaced statement (map range): keep the label on the loop inside
			for i, st := range blk.List {
				if _, isFor := st.(*ast.RangeStmt); isFor {
					x.Stmt = st
					blk.List[i] = x
					return p, blk
				}
			}
		}
		x.Stmt = r
		pre = p
	case *ast.ExprStmt:
		rw.funcLits(x.X)
		pre = rw.yields(x.Pos(), rw.triggers(x.X))
	case *ast.SendStmt:
		rw.funcLits(x.Value)
		pre = rw.yields(x.Pos(), rw.triggers(x))
	case *ast.IncDecStmt:
		pre = rw.yields(x.Pos(), rw.triggers(x.X))
	case *ast.AssignStmt:
		for _, e := range x.Rhs {
			rw.funcLits(e)
		}
		for _, e := range x.Lhs {
			rw.funcLits(e)
		}
		pre = rw.yields(x.Pos(), rw.triggers(x))
	case *ast.DeclStmt:
		rw.funcLits(x.Decl)
		pre = rw.yields(x.Pos(), rw.triggers(x.Decl))
	case *ast.ReturnStmt:
		for _, e := range x.Results {
			rw.funcLits(e)
		}
		pre = rw.yields(x.Pos(), rw.triggers(x))
	case *ast.DeferStmt:
		rw.funcLits(x.Call)
		var nodes []ast.Node
		for _, a := range x.Call.Args {
			nodes = append(nodes, a)
		}
		pre = rw.yields(x.Pos(), rw.triggers(nodes...))
		if k := rw.callKind(x.Call); k == "dyn" || k == "iface" || k == "close" || k == "atomic" || k == "ctx" {
			// R8: a deferred scheduling point. A second defer registered right
			// after it runs right before it (LIFO): the yield happens when the
			// call executes, argument evaluation time and recover() semantics of
			// the original deferred call are untouched.
			rw.st.DeferDynamic++
			y := rw.yieldStmt(x.Pos(), "defer-"+k).(*ast.ExprStmt)
			repl = &ast.BlockStmt{List: []ast.Stmt{x, &ast.DeferStmt{Call: y.X.(*ast.CallExpr)}}}
		}
	case *ast.GoStmt:
		pre, repl = rw.goStmt(x)
	case *ast.IfStmt:
		pre = rw.ifStmt(x)
	case *ast.ForStmt:
		kinds := rw.triggers(x.Init, x.Cond, x.Post)
		rw.funcLits(x.Init)
		rw.funcLits(x.Cond)
		rw.funcLits(x.Post)
		rw.block(x.Body)
		loopKinds := rw.triggers(x.Cond, x.Post)
		if len(loopKinds) > 0 {
			x.Body.List = append(x.Body.List, rw.yieldStmt(x.Pos(), "loop:"+strings.Join(loopKinds, "+")))
		}
		pre = rw.yields(x.Pos(), kinds)
	case *ast.RangeStmt:
		return rw.rangeStmt(x)
	case *ast.SwitchStmt:
		var nodes []ast.Node
		nodes = append(nodes, x.Init, x.Tag)
		rw.funcLits(x.Init)
		rw.funcLits(x.Tag)
		for _, c := range x.Body.List {
			cc := c.(*ast.CaseClause)
			for _, e := range cc.List {
				nodes = append(nodes, e)
				rw.funcLits(e)
			}
			cc.Body = rw.stmtList(cc.Body)
		}
		pre = rw.yields(x.Pos(), rw.triggers(nodes...))
	case *ast.TypeSwitchStmt:
		rw.funcLits(x.Init)
		rw.funcLits(x.Assign)
		for _, c := range x.Body.List {
			cc := c.(*ast.CaseClause)
			cc.Body = rw.stmtList(cc.Body)
		}
		pre = rw.yields(x.Pos(), rw.triggers(x.Init, x.Assign))
	case *ast.SelectStmt:
		kinds := []string{"select"}
		for _, c := range x.Body.List {
			cc := c.(*ast.CommClause)
			if cc.Comm != nil {
				rw.funcLits(cc.Comm)
				for _, k := range rw.triggers(cc.Comm) {
					if k != "recv" && k != "send" {
						kinds = append(kinds, k)
					}
				}
			}
			cc.Body = rw.stmtList(cc.Body)
		}
		pre = rw.yields(x.Pos(), kinds)
		if !rw.keepSelect {
			repl = rw.selectStmt(x)
		}
	}
	return pre, repl
}

// selectStmt: R6. A select with two or more communication cases is rewritten
// so that the choice among simultaneously ready cases is made by the
// simulator, not by the runtime's private PRNG: the cases are polled one at a
// time (non-blocking), starting at a case chosen by simrt.SelectStart, and only
// if none is ready does the original blocking select run (where the waker, and
// hence the seeded schedule, decides). Channel and value operands are hoisted
// so they are evaluated once, as Go requires.
func (rw *rewriter) selectStmt(x *ast.SelectStmt) ast.Stmt {
	var comm []*ast.CommClause
	var def *ast.CommClause
	for _, c := range x.Body.List {
		cc := c.(*ast.CommClause)
		if cc.Comm == nil {
			def = cc
		} else {
			comm = append(comm, cc)
		}
	}
	if len(comm) < 2 {
		return x
	}
	rw.used = true
	var hoist []ast.Stmt
	hoistExpr := func(e ast.Expr) ast.Expr {
		if tv, ok := rw.info.Types[e]; ok && (tv.Value != nil || tv.IsNil()) {
			return e
		}
		v := rw.tmp("c")
		hoist = append(hoist, &ast.AssignStmt{Lhs: []ast.Expr{v}, Tok: token.DEFINE, Rhs: []ast.Expr{e}})
		return v
	}
	for _, cc := range comm {
		switch c := cc.Comm.(type) {
		case *ast.SendStmt:
			c.Chan = hoistExpr(c.Chan)
			c.Value = hoistExpr(c.Value)
		case *ast.ExprStmt:
			if u, ok := ast.Unparen(c.X).(*ast.UnaryExpr); ok && u.Op == token.ARROW {
				u.X = hoistExpr(u.X)
			}
		case *ast.AssignStmt:
			if len(c.Rhs) == 1 {
				if u, ok := ast.Unparen(c.Rhs[0]).(*ast.UnaryExpr); ok && u.Op == token.ARROW {
					u.X = hoistExpr(u.X)
				}
			}
		}
	}
	n := len(comm)
	var final ast.Stmt
	if def != nil {
		final = &ast.BlockStmt{List: def.Body}
	} else {
		var all []ast.Stmt
		for _, cc := range comm {
			all = append(all, cc)
		}
		final = &ast.SelectStmt{Body: &ast.BlockStmt{List: all}}
	}
	var chain func(order []int, k int) ast.Stmt
	chain = func(order []int, k int) ast.Stmt {
		if k == len(order) {
			return final
		}
		return &ast.SelectStmt{Body: &ast.BlockStmt{List: []ast.Stmt{
			comm[order[k]],
			&ast.CommClause{Body: []ast.Stmt{chain(order, k+1)}},
		}}}
	}
	site := &ast.BasicLit{Kind: token.STRING, Value: strconv.Quote(rw.site(x.Pos(), "selectorder"))}
	sw := &ast.SwitchStmt{
		Tag: &ast.CallExpr{
			Fun:  &ast.SelectorExpr{X: ast.NewIdent(simAlias), Sel: ast.NewIdent("SelectStart")},
			Args: []ast.Expr{site, &ast.BasicLit{Kind: token.INT, Value: strconv.Itoa(n)}},
		},
		Body: &ast.BlockStmt{},
	}
	for r := 0; r < n; r++ {
		order := make([]int, n)
		for i := range order {
			order[i] = (r + i) % n
		}
		clause := &ast.CaseClause{Body: []ast.Stmt{chain(order, 0)}}
		if r < n-1 {
			clause.List = []ast.Expr{&ast.BasicLit{Kind: token.INT, Value: strconv.Itoa(r)}}
		} // the last rotation is the default clause
		sw.Body.List = append(sw.Body.List, clause)
	}
	return &ast.BlockStmt{List: append(hoist, sw)}
}

func (rw *rewriter) ifStmt(x *ast.IfStmt) []ast.Stmt {
	var nodes []ast.Node
	for cur := x; cur != nil; {
		nodes = append(nodes, cur.Init, cur.Cond)
		rw.funcLits(cur.Init)
		rw.funcLits(cur.Cond)
		rw.block(cur.Body)
		switch e := cur.Else.(type) {
		case *ast.IfStmt:
			cur = e
		case *ast.BlockStmt:
			rw.block(e)
			cur = nil
		default:
			cur = nil
		}
	}
	return rw.yields(x.Pos(), rw.triggers(nodes...))
}

// goStmt: R2. `go f(a, b)` => { _f := f; _a0 := a; _a1 := b; _vsim.Go(site, func(){ _f(_a0, _a1) }) }
func (rw *rewriter) goStmt(g *ast.GoStmt) ([]ast.Stmt, ast.Stmt) {
	rw.used = true
	call := g.Call
	site := &ast.BasicLit{Kind: token.STRING, Value: strconv.Quote(rw.site(g.Pos(), "go"))}
	simGo := func(body *ast.BlockStmt) ast.Stmt {
		return &ast.ExprStmt{X: &ast.CallExpr{
			Fun:  &ast.SelectorExpr{X: ast.NewIdent(simAlias), Sel: ast.NewIdent("Go")},
			Args: []ast.Expr{site, &ast.FuncLit{Type: &ast.FuncType{Params: &ast.FieldList{}}, Body: body}},
		}}
	}
	pre := rw.yields(g.Pos(), rw.triggers(argsNodes(call)...))
	if fl, ok := ast.Unparen(call.Fun).(*ast.FuncLit); ok && len(call.Args) == 0 {
		rw.block(fl.Body)
		return pre, simGo(fl.Body)
	}
	rw.funcLits(call)
	if tv, ok := rw.info.Types[ast.Unparen(call.Fun)]; ok && (tv.IsBuiltin() || tv.IsType()) {
		fail("%s: go statement on a builtin or conversion is not supported", rw.fset.Position(g.Pos()))
	}
	var stmts []ast.Stmt
	f := rw.tmp("f")
	stmts = append(stmts, &ast.AssignStmt{Lhs: []ast.Expr{f}, Tok: token.DEFINE, Rhs: []ast.Expr{call.Fun}})
	var args []ast.Expr
	for _, a := range call.Args {
		if tv, ok := rw.info.Types[a]; ok && (tv.Value != nil || tv.IsNil()) {
			args = append(args, a) // constants keep their untyped-ness
			continue
		}
		v := rw.tmp("a")
		stmts = append(stmts, &ast.AssignStmt{Lhs: []ast.Expr{v}, Tok: token.DEFINE, Rhs: []ast.Expr{a}})
		args = append(args, v)
	}
	inner := &ast.CallExpr{Fun: f, Args: args, Ellipsis: call.Ellipsis}
	stmts = append(stmts, simGo(&ast.BlockStmt{List: []ast.Stmt{&ast.ExprStmt{X: inner}}}))
	return pre, &ast.BlockStmt{List: stmts}
}

func argsNodes(c *ast.CallExpr) []ast.Node {
	var n []ast.Node
	for _, a := range c.Args {
		n = append(n, a)
	}
	return n
}

func orderedKey(t types.Type) bool {
	b, ok := t.Underlying().(*types.Basic)
	if !ok {
		return false
	}
	return b.Info()&(types.IsInteger|types.IsFloat|types.IsString) != 0
}

// rangeStmt: R3 for channels, R5 for maps.
func (rw *rewriter) rangeStmt(x *ast.RangeStmt) ([]ast.Stmt, ast.Stmt) {
	rw.funcLits(x.X)
	pre := rw.yields(x.Pos(), rw.triggers(x.X))
	tv := rw.info.Types[x.X]
	var under types.Type
	if tv.Type != nil {
		under = tv.Type.Underlying()
	}
	switch u := under.(type) {
	case *types.Chan:
		rw.block(x.Body)
		pre = append(pre, rw.yieldStmt(x.Pos(), "rangechan"))
		x.Body.List = append(x.Body.List, rw.yieldStmt(x.Pos(), "loop:rangechan"))
		return pre, x
	case *types.Map:
		rw.block(x.Body)
		if !orderedKey(u.Key()) {
			p := rw.fset.Position(x.Pos())
			rw.st.Uninstr = append(rw.st.Uninstr, fmt.Sprintf("%s:%d:maprange(non-ordered key)", rw.fname, p.Line))
			return pre, x
		}
		rw.used = true
		rw.site(x.Pos(), "maprange")
		m := rw.tmp("m")
		var key ast.Expr
		var bodyPre []ast.Stmt
		keyIsBlank := x.Key == nil || isBlank(x.Key)
		valIsBlank := x.Value == nil || isBlank(x.Value)
		k := rw.tmp("k")
		key = k
		if x.Tok == token.DEFINE || x.Tok == token.ILLEGAL {
			ok := rw.tmp("ok")
			lhsV := ast.Expr(ast.NewIdent("_"))
			if !valIsBlank {
				lhsV = x.Value
			}
			bodyPre = append(bodyPre,
				&ast.AssignStmt{Lhs: []ast.Expr{lhsV, ok}, Tok: token.DEFINE, Rhs: []ast.Expr{&ast.IndexExpr{X: m, Index: k}}},
				&ast.IfStmt{Cond: &ast.UnaryExpr{Op: token.NOT, X: ok}, Body: &ast.BlockStmt{List: []ast.Stmt{&ast.BranchStmt{Tok: token.CONTINUE}}}},
			)
			if !keyIsBlank {
				// user's key variable, defined per iteration
				bodyPre = append(bodyPre, &ast.AssignStmt{Lhs: []ast.Expr{x.Key}, Tok: token.DEFINE, Rhs: []ast.Expr{k}},
					&ast.AssignStmt{Lhs: []ast.Expr{ast.NewIdent("_")}, Tok: token.ASSIGN, Rhs: []ast.Expr{x.Key}})
			}
		} else { // token.ASSIGN: existing variables
			ok := rw.tmp("ok")
			tmpv := rw.tmp("v")
			bodyPre = append(bodyPre,
				&ast.AssignStmt{Lhs: []ast.Expr{tmpv, ok}, Tok: token.DEFINE, Rhs: []ast.Expr{&ast.IndexExpr{X: m, Index: k}}},
				&ast.IfStmt{Cond: &ast.UnaryExpr{Op: token.NOT, X: ok}, Body: &ast.BlockStmt{List: []ast.Stmt{&ast.BranchStmt{Tok: token.CONTINUE}}}},
				&ast.AssignStmt{Lhs: []ast.Expr{ast.NewIdent("_")}, Tok: token.ASSIGN, Rhs: []ast.Expr{tmpv}},
			)
			if !keyIsBlank {
				bodyPre = append(bodyPre, &ast.AssignStmt{Lhs: []ast.Expr{x.Key}, Tok: token.ASSIGN, Rhs: []ast.Expr{k}})
			}
			if !valIsBlank {
				bodyPre = append(bodyPre, &ast.AssignStmt{Lhs: []ast.Expr{x.Value}, Tok: token.ASSIGN, Rhs: []ast.Expr{tmpv}})
			}
		}
		loop := &ast.RangeStmt{
			Key:   ast.NewIdent("_"),
			Value: key,
			Tok:   token.DEFINE,
			X: &ast.CallExpr{
				Fun:  &ast.SelectorExpr{X: ast.NewIdent(simAlias), Sel: ast.NewIdent("MapKeys")},
				Args: []ast.Expr{m},
			},
			Body: &ast.BlockStmt{List: append(bodyPre, x.Body.List...)},
		}
		blk := &ast.BlockStmt{List: []ast.Stmt{
			&ast.AssignStmt{Lhs: []ast.Expr{m}, Tok: token.DEFINE, Rhs: []ast.Expr{x.X}},
			loop,
		}}
		return pre, blk
	default:
		rw.block(x.Body)
		return pre, x
	}
}

func isBlank(e ast.Expr) bool {
	id, ok := e.(*ast.Ident)
	return ok && id.Name == "_"
}
