#!/bin/bash
# Runs every hand-written mutant (and every stored seeded change) against its
# annotated check; prints one line each and a summary. VERIF_RUNS limits the
# runs per check (default: the quick tier).
cd "$(dirname "$(readlink -f "$0")")/.."
caught=0; missed=0; other=0
for m in mutants/*.patch; do
  out=$(tools/runmutant.sh "$m" "${1:-quick}" 2>&1); echo "$out" | grep -E "^MUTANT" 
  if echo "$out" | grep -q "MISSED"; then missed=$((missed+1)); elif echo "$out" | grep -q "CAUGHT"; then caught=$((caught+1)); else other=$((other+1)); fi
done
for s in seeded/[A-Z]*/; do
  prop=$(python3 -c "import json;m=json.load(open('$s/meta.json'));print(m.get('check') or m['property'])")
  if [ "$prop" = none ]; then echo "SEED $(basename $s): out of reach (see meta.json)"; other=$((other+1)); continue; fi
  out=$(tools/seedcheck.sh "$s" $prop -- "${1:-quick}" 2>&1); echo "$out" | grep -E "SEED|CAUGHT|missed|INFRA" | tr '\n' ' '; echo
  if echo "$out" | grep -q "CAUGHT"; then caught=$((caught+1)); elif echo "$out" | grep -q "missed"; then missed=$((missed+1)); else other=$((other+1)); fi
done
echo "SUMMARY caught=$caught missed=$missed other=$other"
