#!/bin/bash
# seedcheck.sh <dir-with-patch.diff+demo_test.go> <property ids...> [-- tier]
# Confirms a seeded change in a scratch copy of /repo (suite passes with it, the
# demonstration fails with it and passes without it), then runs the named
# checks against the changed copy. Prints a summary; exit 0 if confirmed.
set -u
src=$(readlink -f "$1"); shift
tier=quick; props=()
while [ $# -gt 0 ]; do if [ "$1" = "--" ]; then tier=$2; break; fi; props+=("$1"); shift; done
d=$(mktemp -d /tmp/seedchk.XXXXXX); trap 'rm -rf "$d"' EXIT
mkdir "$d/with" "$d/without"
cp /repo/*.go /repo/go.mod "$d/with/"; cp /repo/*.go /repo/go.mod "$d/without/"
( cd "$d/with" && patch -p1 -s < "$src/patch.diff" ) || { echo "SEED: patch does not apply"; exit 2; }
suite=fail; ( cd "$d/with" && go build ./... && go test -count=1 ./... >/dev/null 2>&1 ) && suite=pass
cp "$src/demo_test.go" "$d/with/"; cp "$src/demo_test.go" "$d/without/"
tests=$(grep -oE '^func (Test[A-Za-z0-9_]+)' "$src/demo_test.go" | awk '{print $2}' | paste -sd'|')
dw=pass; ( cd "$d/with" && timeout 300 go test -count=1 -run "^($tests)\$" ./... >/dev/null 2>&1 ) || dw=fail
dwo=pass; ( cd "$d/without" && timeout 300 go test -count=1 -run "^($tests)\$" ./... >/dev/null 2>&1 ) || dwo=fail
echo "SEED $(basename $src): suite-with-change=$suite demo-with-change=$dw demo-without-change=$dwo"
rm "$d/with/demo_test.go"
for p in "${props[@]}"; do
  out=$(VERIF_REPO="$d/with" VERIF_REPLAY_DIR="$d/replays" VERIF_EVIDENCE_DIR="$d/evidence" /verif/check $p $tier 2>&1); code=$?
  line=$(echo "$out" | grep -E "^violation class" | head -1 | cut -c1-400)
  case $code in
    1) echo "  [$p $tier] CAUGHT $line";;
    0) echo "  [$p $tier] missed";;
    *) echo "  [$p $tier] INFRA exit=$code"; echo "$out" | tail -5;;
  esac
done
[ "$suite" = pass ] && [ "$dw" = fail ] && [ "$dwo" = pass ]
