#!/usr/bin/env python3
"""mkmutant.py <name> <property> <file> <<< 'OLD\n====\nNEW'  -> /verif/mutants/<name>.patch
Creates a patch against /repo by textual replacement (exactly one occurrence unless count given)."""
import sys, subprocess, tempfile, os, shutil
name, prop, fname = sys.argv[1:4]
text = sys.stdin.read()
src = open('/repo/' + fname).read()
mut = src
for pair in text.split('\n####\n'):
    old, new = pair.split('\n====\n')
    old = old.strip('\n'); new = new.strip('\n')
    if mut.count(old) != 1:
        sys.exit('pattern occurs %d times in %s: %s' % (mut.count(old), fname, old[:60]))
    mut = mut.replace(old, new)
d = tempfile.mkdtemp()
os.makedirs(d + '/a'); os.makedirs(d + '/b')
open(d + '/a/' + fname, 'w').write(src)
open(d + '/b/' + fname, 'w').write(mut)
p = subprocess.run(['diff', '-u', 'a/' + fname, 'b/' + fname], cwd=d, capture_output=True, text=True)
out = '/verif/mutants/%s.patch' % name
open(out, 'w').write('# property: %s\n' % prop + p.stdout)
shutil.rmtree(d)
print(out)
